//! Independent AArch64 (A64) reference decoder/interpreter for a subset of the
//! base integer and load/store instruction set.  Written from the Arm ARM
//! pseudocode (AddWithCarry, DecodeBitMasks, ExtendReg, ShiftReg, load/store
//! address generation with wback/postindex).  No dependencies beyond std.

use std::collections::BTreeMap;

#[derive(Clone, Debug, PartialEq, Eq)]
pub struct A64Cpu {
    pub x: [u64; 31],
    pub sp: u64,
    pub n: bool,
    pub z: bool,
    pub c: bool,
    pub v: bool,
    pub vreg: [u128; 32],
    pub mem: BTreeMap<u64, u8>,
    pub big_endian: bool,
}

impl A64Cpu {
    pub fn new() -> Self {
        A64Cpu {
            x: [0; 31],
            sp: 0,
            n: false,
            z: false,
            c: false,
            v: false,
            vreg: [0; 32],
            mem: BTreeMap::new(),
            big_endian: false,
        }
    }
}

impl Default for A64Cpu {
    fn default() -> Self {
        Self::new()
    }
}

#[derive(Clone, Debug, PartialEq, Eq)]
pub enum A64Outcome {
    Next { pc: u64 },
    MemFault(u64),
    Unpredictable(&'static str),
    Undefined,
    Unmodelled,
}

// ---------------------------------------------------------------------------
// Decoded form
// ---------------------------------------------------------------------------

#[derive(Clone, Copy, Debug, PartialEq, Eq)]
enum MemOp {
    Load,
    Store,
    Prefetch,
}

#[derive(Clone, Copy, Debug, PartialEq, Eq)]
enum Addr {
    /// base + immediate, optional writeback, pre or post indexed
    Imm { offset: i64, wback: bool, postindex: bool },
    /// base + ExtendReg(Rm, option, shift)
    Reg { rm: u8, option: u8, shift: u8 },
    /// pc + offset
    Lit { offset: i64 },
}

#[derive(Clone, Copy, Debug, PartialEq, Eq)]
enum Op {
    AddSubImm { sf: bool, sub: bool, setflags: bool, imm: u64, rn: u8, rd: u8 },
    AddSubShift { sf: bool, sub: bool, setflags: bool, shift_type: u8, amount: u8, rm: u8, rn: u8, rd: u8 },
    AddSubExt { sf: bool, sub: bool, setflags: bool, option: u8, shift: u8, rm: u8, rn: u8, rd: u8 },
    MovWide { sf: bool, opc: u8, pos: u8, imm16: u16, rd: u8 },
    LogImm { sf: bool, opc: u8, imm: u64, rn: u8, rd: u8 },
    LogShift { sf: bool, opc: u8, invert: bool, shift_type: u8, amount: u8, rm: u8, rn: u8, rd: u8 },
    /// size = log2(bytes) (0..=4; 4 only for SIMD Q)
    LdSt { memop: MemOp, size: u8, signed: bool, regsize64: bool, simd: bool, rn: u8, rt: u8, addr: Addr },
    /// scale = log2(bytes per element)
    LdStPair { load: bool, scale: u8, signed: bool, simd: bool, rn: u8, rt: u8, rt2: u8, offset: i64, wback: bool, postindex: bool },
    B { offset: i64, link: bool },
    BReg { rn: u8, link: bool },
    BCond { cond: u8, offset: i64 },
    Cbz { sf: bool, nz: bool, offset: i64, rt: u8 },
    Tbz { bit_pos: u8, nz: bool, offset: i64, rt: u8 },
    Nop,
}

#[derive(Clone, Copy, Debug, PartialEq, Eq)]
struct Insn {
    class: &'static str,
    op: Op,
    unpredictable: Option<&'static str>,
}

#[derive(Clone, Copy, Debug, PartialEq, Eq)]
enum Dec {
    Ok(Insn),
    Undefined,
    Unmodelled,
}

fn ok(class: &'static str, op: Op) -> Dec {
    Dec::Ok(Insn { class, op, unpredictable: None })
}

// ---------------------------------------------------------------------------
// Bit helpers
// ---------------------------------------------------------------------------

#[inline]
fn bits(w: u32, hi: u32, lo: u32) -> u32 {
    debug_assert!(hi >= lo && hi - lo < 31);
    (w >> lo) & ((1u32 << (hi - lo + 1)) - 1)
}

#[inline]
fn bit(w: u32, n: u32) -> bool {
    (w >> n) & 1 == 1
}

/// SignExtend of the low `nbits` of `val` to 64 bits.
#[inline]
fn sext(val: u64, nbits: u32) -> i64 {
    debug_assert!(nbits >= 1 && nbits <= 64);
    if nbits == 64 {
        val as i64
    } else {
        let sh = 64 - nbits;
        ((val << sh) as i64) >> sh
    }
}

/// Ones(n) as a 64-bit value, n in 0..=64.
#[inline]
fn ones(n: u32) -> u64 {
    if n == 0 {
        0
    } else if n >= 64 {
        u64::MAX
    } else {
        (1u64 << n) - 1
    }
}

/// Arm ARM DecodeBitMasks(immN, imms, immr, immediate=TRUE, M) returning wmask only.
/// None means UNDEFINED.
pub fn decode_bit_masks(imm_n: u32, imms: u32, immr: u32, m: u32) -> Option<u64> {
    // len = HighestSetBit(immN:NOT(imms))
    let combined = ((imm_n & 1) << 6) | ((!imms) & 0x3f);
    if combined == 0 {
        return None;
    }
    let len = 31 - combined.leading_zeros(); // 0..=6
    if len < 1 {
        return None;
    }
    if m < (1u32 << len) {
        return None;
    }
    let levels = (1u32 << len) - 1; // ZeroExtend(Ones(len), 6)
    if (imms & levels) == levels {
        return None; // immediate && all-ones S is reserved
    }
    let s = imms & levels;
    let r = immr & levels;
    let esize = 1u32 << len;
    let welem = ones(s + 1); // ZeroExtend(Ones(S+1), esize)
    // ROR(welem, R) within esize bits
    let emask = ones(esize);
    let rotated = if r == 0 {
        welem
    } else {
        ((welem >> r) | (welem << (esize - r))) & emask
    };
    // Replicate to M bits
    let mut wmask = 0u64;
    let mut pos = 0;
    while pos < m {
        wmask |= rotated << pos;
        pos += esize;
    }
    Some(wmask & ones(m))
}

/// AddWithCarry(x, y, carry_in) on 64 (sf) or 32 bits; returns (result, n, z, c, v).
pub fn add_with_carry(x: u64, y: u64, carry_in: bool, sf: bool) -> (u64, bool, bool, bool, bool) {
    let cin = carry_in as u8;
    if sf {
        let unsigned_sum = x as u128 + y as u128 + cin as u128;
        let signed_sum = (x as i64 as i128) + (y as i64 as i128) + cin as i128;
        let result = unsigned_sum as u64;
        let n = (result >> 63) & 1 == 1;
        let z = result == 0;
        let c = (result as u128) != unsigned_sum;
        let v = (result as i64 as i128) != signed_sum;
        (result, n, z, c, v)
    } else {
        let x = x as u32;
        let y = y as u32;
        let unsigned_sum = x as u64 + y as u64 + cin as u64;
        let signed_sum = (x as i32 as i64) + (y as i32 as i64) + cin as i64;
        let result = unsigned_sum as u32;
        let n = (result >> 31) & 1 == 1;
        let z = result == 0;
        let c = (result as u64) != unsigned_sum;
        let v = (result as i32 as i64) != signed_sum;
        (result as u64, n, z, c, v)
    }
}

/// ShiftReg value part: shift `val` (already datasize wide) by `amount`.
/// shift_type: 0 LSL, 1 LSR, 2 ASR, 3 ROR.  amount < datasize.
fn shift_val(val: u64, shift_type: u8, amount: u32, sf: bool) -> u64 {
    let n: u32 = if sf { 64 } else { 32 };
    let mask = ones(n);
    let val = val & mask;
    let amount = amount % n;
    if amount == 0 {
        return val;
    }
    let r = match shift_type {
        0 => val << amount,
        1 => val >> amount,
        2 => (sext(val, n) >> amount) as u64,
        _ => (val >> amount) | (val << (n - amount)),
    };
    r & mask
}

/// ExtendReg(reg value, option, shift, N): option 0..7 = UXTB,UXTH,UXTW,UXTX,SXTB,SXTH,SXTW,SXTX.
fn extend_val(val: u64, option: u8, shift: u32, sf: bool) -> u64 {
    debug_assert!(shift <= 4);
    let n: u32 = if sf { 64 } else { 32 };
    let val = val & ones(n);
    let unsigned = option & 4 == 0;
    let len0: u32 = 8 << (option & 3);
    let len = len0.min(n - shift);
    let field = val & ones(len);
    // Extend(field : Zeros(shift), N, unsigned)
    let total = len + shift; // <= N
    let concat = field << shift;
    let ext = if unsigned { concat } else { sext(concat, total) as u64 };
    ext & ones(n)
}

// ---------------------------------------------------------------------------
// Decode: data processing
// ---------------------------------------------------------------------------

fn decode_dp_imm(w: u32) -> Dec {
    let sf = bit(w, 31);
    let rn = bits(w, 9, 5) as u8;
    let rd = bits(w, 4, 0) as u8;
    match bits(w, 25, 23) {
        0b010 => {
            // Add/subtract (immediate): sf op S 100010 sh imm12 Rn Rd
            let sub = bit(w, 30);
            let setflags = bit(w, 29);
            let imm12 = bits(w, 21, 10) as u64;
            let imm = if bit(w, 22) { imm12 << 12 } else { imm12 };
            let class = match (sub, setflags) {
                (false, false) => "add_imm",
                (false, true) => "adds_imm",
                (true, false) => "sub_imm",
                (true, true) => "subs_imm",
            };
            ok(class, Op::AddSubImm { sf, sub, setflags, imm, rn, rd })
        }
        0b100 => {
            // Logical (immediate): sf opc 100100 N immr imms Rn Rd
            let opc = bits(w, 30, 29) as u8;
            let n = bits(w, 22, 22);
            let immr = bits(w, 21, 16);
            let imms = bits(w, 15, 10);
            if !sf && n != 0 {
                return Dec::Undefined;
            }
            let imm = match decode_bit_masks(n, imms, immr, if sf { 64 } else { 32 }) {
                Some(i) => i,
                None => return Dec::Undefined,
            };
            let class = match opc {
                0 => "and_imm",
                1 => "orr_imm",
                2 => "eor_imm",
                _ => "ands_imm",
            };
            ok(class, Op::LogImm { sf, opc, imm, rn, rd })
        }
        0b101 => {
            // Move wide (immediate): sf opc 100101 hw imm16 Rd
            let opc = bits(w, 30, 29) as u8;
            let hw = bits(w, 22, 21);
            let imm16 = bits(w, 20, 5) as u16;
            if opc == 1 {
                return Dec::Undefined;
            }
            if !sf && (hw & 2) != 0 {
                return Dec::Undefined;
            }
            let class = match opc {
                0 => "movn",
                2 => "movz",
                _ => "movk",
            };
            ok(class, Op::MovWide { sf, opc, pos: (hw << 4) as u8, imm16, rd })
        }
        // 00x ADR/ADRP, 011 add/sub with tags, 110 bitfield, 111 extract
        _ => Dec::Unmodelled,
    }
}

fn decode_dp_reg(w: u32) -> Dec {
    // bits 27:25 == 101
    if bit(w, 28) {
        return Dec::Unmodelled; // adc/sbc, ccmp, csel, 1/2/3-source
    }
    let sf = bit(w, 31);
    let rm = bits(w, 20, 16) as u8;
    let rn = bits(w, 9, 5) as u8;
    let rd = bits(w, 4, 0) as u8;
    if !bit(w, 24) {
        // Logical (shifted register): sf opc 01010 shift N Rm imm6 Rn Rd
        let opc = bits(w, 30, 29) as u8;
        let shift_type = bits(w, 23, 22) as u8;
        let invert = bit(w, 21);
        let imm6 = bits(w, 15, 10) as u8;
        if !sf && imm6 >= 32 {
            return Dec::Undefined;
        }
        let class = match (opc, invert) {
            (0, false) => "and_shift",
            (0, true) => "bic_shift",
            (1, false) => "orr_shift",
            (1, true) => "orn_shift",
            (2, false) => "eor_shift",
            (2, true) => "eon_shift",
            (_, false) => "ands_shift",
            (_, true) => "bics_shift",
        };
        return ok(class, Op::LogShift { sf, opc, invert, shift_type, amount: imm6, rm, rn, rd });
    }
    let sub = bit(w, 30);
    let setflags = bit(w, 29);
    if !bit(w, 21) {
        // Add/subtract (shifted register): sf op S 01011 shift 0 Rm imm6 Rn Rd
        let shift_type = bits(w, 23, 22) as u8;
        let imm6 = bits(w, 15, 10) as u8;
        if shift_type == 3 {
            return Dec::Undefined;
        }
        if !sf && imm6 >= 32 {
            return Dec::Undefined;
        }
        let class = match (sub, setflags) {
            (false, false) => "add_shift",
            (false, true) => "adds_shift",
            (true, false) => "sub_shift",
            (true, true) => "subs_shift",
        };
        ok(class, Op::AddSubShift { sf, sub, setflags, shift_type, amount: imm6, rm, rn, rd })
    } else {
        // Add/subtract (extended register): sf op S 01011 opt 1 Rm option imm3 Rn Rd
        if bits(w, 23, 22) != 0 {
            return Dec::Undefined; // opt != 00 is unallocated
        }
        let option = bits(w, 15, 13) as u8;
        let imm3 = bits(w, 12, 10) as u8;
        if imm3 > 4 {
            return Dec::Undefined;
        }
        let class = match (sub, setflags) {
            (false, false) => "add_ext",
            (false, true) => "adds_ext",
            (true, false) => "sub_ext",
            (true, true) => "subs_ext",
        };
        ok(class, Op::AddSubExt { sf, sub, setflags, option, shift: imm3, rm, rn, rd })
    }
}

// ---------------------------------------------------------------------------
// Decode: branches, system hints
// ---------------------------------------------------------------------------

fn decode_branch_sys(w: u32) -> Dec {
    // bits 28:26 == 101
    if bits(w, 30, 26) == 0b00101 {
        // B / BL: op 00101 imm26
        let offset = sext((bits(w, 25, 0) as u64) << 2, 28);
        let link = bit(w, 31);
        return ok(if link { "bl" } else { "b" }, Op::B { offset, link });
    }
    if bits(w, 30, 25) == 0b011010 {
        // CBZ/CBNZ: sf 011010 op imm19 Rt
        let offset = sext((bits(w, 23, 5) as u64) << 2, 21);
        let nz = bit(w, 24);
        return ok(
            if nz { "cbnz" } else { "cbz" },
            Op::Cbz { sf: bit(w, 31), nz, offset, rt: bits(w, 4, 0) as u8 },
        );
    }
    if bits(w, 30, 25) == 0b011011 {
        // TBZ/TBNZ: b5 011011 op b40 imm14 Rt
        let offset = sext((bits(w, 18, 5) as u64) << 2, 16);
        let nz = bit(w, 24);
        let bit_pos = ((bits(w, 31, 31) << 5) | bits(w, 23, 19)) as u8;
        return ok(
            if nz { "tbnz" } else { "tbz" },
            Op::Tbz { bit_pos, nz, offset, rt: bits(w, 4, 0) as u8 },
        );
    }
    if bits(w, 31, 25) == 0b0101010 {
        // Conditional branch (immediate): 0101010 o1 imm19 o0 cond
        if bit(w, 24) {
            return Dec::Undefined; // o1 == 1 unallocated
        }
        if bit(w, 4) {
            return Dec::Unmodelled; // BC.cond (FEAT_HBC)
        }
        let offset = sext((bits(w, 23, 5) as u64) << 2, 21);
        return ok("b_cond", Op::BCond { cond: bits(w, 3, 0) as u8, offset });
    }
    if bits(w, 31, 25) == 0b1101011 {
        // Unconditional branch (register): 1101011 opc op2 op3 Rn op4
        let opc = bits(w, 24, 21);
        let op2 = bits(w, 20, 16);
        let op3 = bits(w, 15, 10);
        let rn = bits(w, 9, 5) as u8;
        let op4 = bits(w, 4, 0);
        if opc <= 2 && op2 == 0b11111 && op3 == 0 {
            if op4 != 0 {
                return Dec::Undefined;
            }
            return match opc {
                0 => ok("br", Op::BReg { rn, link: false }),
                1 => ok("blr", Op::BReg { rn, link: true }),
                _ => ok("ret", Op::BReg { rn, link: false }),
            };
        }
        return Dec::Unmodelled; // ERET, DRPS, pointer-auth branches, ...
    }
    // Hints: 1101 0101 0000 0011 0010 CRm op2 11111
    if (w & 0xffff_f01f) == 0xd503_201f {
        let crm_op2 = bits(w, 11, 5);
        return ok(if crm_op2 == 0 { "nop" } else { "hint" }, Op::Nop);
    }
    Dec::Unmodelled // exceptions, barriers, MSR/MRS, SYS, ...
}

// ---------------------------------------------------------------------------
// Decode: loads and stores
// ---------------------------------------------------------------------------

macro_rules! modes {
    ($b:literal) => {
        [
            concat!($b, "_uoff"),
            concat!($b, "_pre"),
            concat!($b, "_post"),
            concat!($b, "_unscaled"),
            concat!($b, "_reg"),
            concat!($b, "_lit"),
            concat!($b, "_unpriv"),
        ]
    };
}

const M_UOFF: usize = 0;
const M_PRE: usize = 1;
const M_POST: usize = 2;
const M_UNSCALED: usize = 3;
const M_REG: usize = 4;
const M_LIT: usize = 5;
const M_UNPRIV: usize = 6;

const B_STR: usize = 0;
const B_LDR: usize = 1;
const B_STRB: usize = 2;
const B_LDRB: usize = 3;
const B_STRH: usize = 4;
const B_LDRH: usize = 5;
const B_LDRSB: usize = 6;
const B_LDRSH: usize = 7;
const B_LDRSW: usize = 8;
const B_PRFM: usize = 9;
const B_STR_SIMD: usize = 10;
const B_LDR_SIMD: usize = 11;

const LS_NAMES: [[&str; 7]; 12] = [
    modes!("str"),
    modes!("ldr"),
    modes!("strb"),
    modes!("ldrb"),
    modes!("strh"),
    modes!("ldrh"),
    modes!("ldrsb"),
    modes!("ldrsh"),
    modes!("ldrsw"),
    modes!("prfm"),
    modes!("str_simd"),
    modes!("ldr_simd"),
];

fn decode_ldst(w: u32) -> Dec {
    // bit 27 == 1, bit 25 == 0
    let v = bit(w, 26);
    let b24 = bit(w, 24);
    match bits(w, 29, 28) {
        0b00 => {
            if v || b24 {
                Dec::Unmodelled // AdvSIMD structure loads/stores, other spaces
            } else {
                decode_ordered(w)
            }
        }
        0b01 => {
            if !b24 {
                decode_literal(w)
            } else if !v && !bit(w, 21) && bits(w, 11, 10) == 0 {
                decode_ldapur(w)
            } else {
                Dec::Unmodelled
            }
        }
        0b10 => decode_pair(w),
        _ => decode_ldst_reg(w),
    }
}

fn decode_ordered(w: u32) -> Dec {
    // size 001000 o2 L o1 Rs o0 Rt2 Rn Rt
    let o2 = bit(w, 23);
    let o1 = bit(w, 21);
    if !o2 || o1 {
        return Dec::Unmodelled; // exclusives, exclusive pairs, CAS
    }
    let size = bits(w, 31, 30) as u8;
    let load = bit(w, 22);
    let o0 = bit(w, 15);
    let rs = bits(w, 20, 16);
    let rt2 = bits(w, 14, 10);
    let rn = bits(w, 9, 5) as u8;
    let rt = bits(w, 4, 0) as u8;
    let class = match (load, o0, size) {
        (false, false, 0) => "stllrb",
        (false, false, 1) => "stllrh",
        (false, false, _) => "stllr",
        (false, true, 0) => "stlrb",
        (false, true, 1) => "stlrh",
        (false, true, _) => "stlr",
        (true, false, 0) => "ldlarb",
        (true, false, 1) => "ldlarh",
        (true, false, _) => "ldlar",
        (true, true, 0) => "ldarb",
        (true, true, 1) => "ldarh",
        (true, true, _) => "ldar",
    };
    let op = Op::LdSt {
        memop: if load { MemOp::Load } else { MemOp::Store },
        size,
        signed: false,
        regsize64: size == 3,
        simd: false,
        rn,
        rt,
        addr: Addr::Imm { offset: 0, wback: false, postindex: false },
    };
    let unpredictable = if rs != 31 || rt2 != 31 {
        Some("should-be-one Rs/Rt2 field is not all ones")
    } else {
        None
    };
    Dec::Ok(Insn { class, op, unpredictable })
}

fn decode_literal(w: u32) -> Dec {
    // opc 011 V 00 imm19 Rt
    let opc = bits(w, 31, 30);
    let v = bit(w, 26);
    let offset = sext((bits(w, 23, 5) as u64) << 2, 21);
    let rt = bits(w, 4, 0) as u8;
    let addr = Addr::Lit { offset };
    if v {
        if opc == 3 {
            return Dec::Undefined;
        }
        let size = (2 + opc) as u8;
        return ok(
            LS_NAMES[B_LDR_SIMD][M_LIT],
            Op::LdSt { memop: MemOp::Load, size, signed: false, regsize64: false, simd: true, rn: 31, rt, addr },
        );
    }
    let (base, memop, size, signed, regsize64) = match opc {
        0 => (B_LDR, MemOp::Load, 2, false, false),
        1 => (B_LDR, MemOp::Load, 3, false, true),
        2 => (B_LDRSW, MemOp::Load, 2, true, true),
        _ => (B_PRFM, MemOp::Prefetch, 3, false, true),
    };
    ok(LS_NAMES[base][M_LIT], Op::LdSt { memop, size, signed, regsize64, simd: false, rn: 31, rt, addr })
}

fn decode_ldapur(w: u32) -> Dec {
    // size 011001 opc 0 imm9 00 Rn Rt
    let size = bits(w, 31, 30) as u8;
    let opc = bits(w, 23, 22);
    let offset = sext(bits(w, 20, 12) as u64, 9);
    let rn = bits(w, 9, 5) as u8;
    let rt = bits(w, 4, 0) as u8;
    let (class, memop, signed, regsize64) = match (size, opc) {
        (0, 0) => ("stlurb", MemOp::Store, false, false),
        (0, 1) => ("ldapurb", MemOp::Load, false, false),
        (0, 2) => ("ldapursb", MemOp::Load, true, true),
        (0, _) => ("ldapursb", MemOp::Load, true, false),
        (1, 0) => ("stlurh", MemOp::Store, false, false),
        (1, 1) => ("ldapurh", MemOp::Load, false, false),
        (1, 2) => ("ldapursh", MemOp::Load, true, true),
        (1, _) => ("ldapursh", MemOp::Load, true, false),
        (2, 0) => ("stlur", MemOp::Store, false, false),
        (2, 1) => ("ldapur", MemOp::Load, false, false),
        (2, 2) => ("ldapursw", MemOp::Load, true, true),
        (3, 0) => ("stlur", MemOp::Store, false, true),
        (3, 1) => ("ldapur", MemOp::Load, false, true),
        _ => return Dec::Undefined,
    };
    ok(
        class,
        Op::LdSt {
            memop,
            size,
            signed,
            regsize64,
            simd: false,
            rn,
            rt,
            addr: Addr::Imm { offset, wback: false, postindex: false },
        },
    )
}

fn decode_pair(w: u32) -> Dec {
    // opc 101 V 0 mode L imm7 Rt2 Rn Rt
    let opc = bits(w, 31, 30);
    let v = bit(w, 26);
    let mode = bits(w, 24, 23); // 00 no-allocate, 01 post, 10 offset, 11 pre
    let load = bit(w, 22);
    let imm7 = bits(w, 21, 15) as u64;
    let rt2 = bits(w, 14, 10) as u8;
    let rn = bits(w, 9, 5) as u8;
    let rt = bits(w, 4, 0) as u8;
    let (wback, postindex) = match mode {
        0b01 => (true, true),
        0b11 => (true, false),
        _ => (false, false),
    };
    if opc == 3 {
        return Dec::Undefined;
    }
    let (scale, signed, class): (u8, bool, &'static str);
    if v {
        scale = (2 + opc) as u8;
        signed = false;
        class = match (mode == 0, load) {
            (true, true) => "ldnp_simd",
            (true, false) => "stnp_simd",
            (false, true) => "ldp_simd",
            (false, false) => "stp_simd",
        };
    } else {
        if opc == 1 {
            if mode == 0 {
                return Dec::Undefined; // no-allocate pair has no opc=01 form
            }
            if !load {
                return Dec::Unmodelled; // STGP (FEAT_MTE)
            }
        }
        scale = (2 + (opc >> 1)) as u8;
        signed = opc & 1 == 1;
        class = match (mode, load, signed) {
            (0, true, _) => "ldnp",
            (0, false, _) => "stnp",
            (1, true, false) => "ldp_post",
            (2, true, false) => "ldp_off",
            (_, true, false) => "ldp_pre",
            (1, true, true) => "ldpsw_post",
            (2, true, true) => "ldpsw_off",
            (_, true, true) => "ldpsw_pre",
            (1, false, _) => "stp_post",
            (2, false, _) => "stp_off",
            (_, false, _) => "stp_pre",
        };
    }
    let offset = sext(imm7, 7) << scale;
    let mut unpredictable = None;
    if load && rt == rt2 {
        unpredictable = Some("load pair with Rt == Rt2");
    }
    if !v && wback && (rt == rn || rt2 == rn) && rn != 31 {
        unpredictable = Some("pair writeback with base register in Rt/Rt2");
    }
    Dec::Ok(Insn {
        class,
        op: Op::LdStPair { load, scale, signed, simd: v, rn, rt, rt2, offset, wback, postindex },
        unpredictable,
    })
}

fn decode_ldst_reg(w: u32) -> Dec {
    // size 111 V 0 b24 opc ...
    let size = bits(w, 31, 30);
    let v = bit(w, 26);
    let opc = bits(w, 23, 22);
    let rn = bits(w, 9, 5) as u8;
    let rt = bits(w, 4, 0) as u8;

    // Addressing mode
    let mode = if bit(w, 24) {
        M_UOFF
    } else if !bit(w, 21) {
        match bits(w, 11, 10) {
            0b00 => M_UNSCALED,
            0b01 => M_POST,
            0b10 => M_UNPRIV,
            _ => M_PRE,
        }
    } else if bits(w, 11, 10) == 0b10 {
        M_REG
    } else {
        return Dec::Unmodelled; // atomic memory operations, LDRAA/LDRAB
    };

    // Operation
    let (base, memop, scale, signed, regsize64): (usize, MemOp, u8, bool, bool);
    if v {
        if mode == M_UNPRIV {
            return Dec::Undefined;
        }
        let sc = ((opc >> 1) << 2) | size;
        if sc > 4 {
            return Dec::Undefined;
        }
        scale = sc as u8;
        signed = false;
        regsize64 = false;
        if opc & 1 == 1 {
            memop = MemOp::Load;
            base = B_LDR_SIMD;
        } else {
            memop = MemOp::Store;
            base = B_STR_SIMD;
        }
    } else {
        scale = size as u8;
        if opc & 2 == 0 {
            let load = opc & 1 == 1;
            memop = if load { MemOp::Load } else { MemOp::Store };
            regsize64 = size == 3;
            signed = false;
            base = match (size, load) {
                (0, false) => B_STRB,
                (0, true) => B_LDRB,
                (1, false) => B_STRH,
                (1, true) => B_LDRH,
                (_, false) => B_STR,
                (_, true) => B_LDR,
            };
        } else if size == 3 {
            if opc & 1 == 1 {
                return Dec::Undefined;
            }
            if mode == M_PRE || mode == M_POST || mode == M_UNPRIV {
                return Dec::Undefined; // no prefetch form in these classes
            }
            memop = MemOp::Prefetch;
            regsize64 = true;
            signed = false;
            base = B_PRFM;
        } else {
            if size == 2 && opc & 1 == 1 {
                return Dec::Undefined;
            }
            memop = MemOp::Load;
            regsize64 = opc & 1 == 0;
            signed = true;
            base = match size {
                0 => B_LDRSB,
                1 => B_LDRSH,
                _ => B_LDRSW,
            };
        }
    }

    let addr = match mode {
        M_UOFF => Addr::Imm { offset: ((bits(w, 21, 10) as u64) << scale) as i64, wback: false, postindex: false },
        M_REG => {
            let option = bits(w, 15, 13) as u8;
            if option & 2 == 0 {
                return Dec::Undefined;
            }
            let shift = if bit(w, 12) { scale } else { 0 };
            Addr::Reg { rm: bits(w, 20, 16) as u8, option, shift }
        }
        _ => {
            let offset = sext(bits(w, 20, 12) as u64, 9);
            Addr::Imm { offset, wback: mode == M_PRE || mode == M_POST, postindex: mode == M_POST }
        }
    };

    let mut unpredictable = None;
    if !v && (mode == M_PRE || mode == M_POST) && rn == rt && rn != 31 {
        unpredictable = Some("writeback with Rn == Rt");
    }
    Dec::Ok(Insn {
        class: LS_NAMES[base][mode],
        op: Op::LdSt { memop, size: scale, signed, regsize64, simd: v, rn, rt, addr },
        unpredictable,
    })
}

fn decode(w: u32) -> Dec {
    // Top-level: op0 = bits 28:25
    match bits(w, 28, 25) {
        0b1000 | 0b1001 => decode_dp_imm(w),
        0b1010 | 0b1011 => decode_branch_sys(w),
        0b0101 | 0b1101 => decode_dp_reg(w),
        0b0100 | 0b0110 | 0b1100 | 0b1110 => decode_ldst(w),
        _ => Dec::Unmodelled, // reserved, SME, SVE, SIMD&FP data processing
    }
}

// ---------------------------------------------------------------------------
// Execution
// ---------------------------------------------------------------------------

/// X[n] with 31 = ZR.
fn xr(cpu: &A64Cpu, r: u8) -> u64 {
    if r == 31 {
        0
    } else {
        cpu.x[r as usize]
    }
}

/// X[n] with 31 = SP.
fn xr_sp(cpu: &A64Cpu, r: u8) -> u64 {
    if r == 31 {
        cpu.sp
    } else {
        cpu.x[r as usize]
    }
}

/// X[d] = val (W write zero-extends), 31 = ZR (discard).
fn set_xr(cpu: &mut A64Cpu, r: u8, val: u64, sf: bool) {
    if r != 31 {
        cpu.x[r as usize] = if sf { val } else { val & 0xffff_ffff };
    }
}

/// Like set_xr but 31 = SP.
fn set_xr_sp(cpu: &mut A64Cpu, r: u8, val: u64, sf: bool) {
    let val = if sf { val } else { val & 0xffff_ffff };
    if r == 31 {
        cpu.sp = val;
    } else {
        cpu.x[r as usize] = val;
    }
}

/// ConditionHolds(cond)
pub fn condition_holds(cpu: &A64Cpu, cond: u8) -> bool {
    let r = match (cond >> 1) & 7 {
        0 => cpu.z,
        1 => cpu.c,
        2 => cpu.n,
        3 => cpu.v,
        4 => cpu.c && !cpu.z,
        5 => cpu.n == cpu.v,
        6 => cpu.n == cpu.v && !cpu.z,
        _ => true,
    };
    if cond & 1 == 1 && cond != 0xf {
        !r
    } else {
        r
    }
}

/// Returns Err(first unmapped address) if any byte of [addr, addr+len) is unmapped.
fn mem_check(cpu: &A64Cpu, addr: u64, len: u64) -> Result<(), u64> {
    for i in 0..len {
        let a = addr.wrapping_add(i);
        if !cpu.mem.contains_key(&a) {
            return Err(a);
        }
    }
    Ok(())
}

/// Read one element of `len` bytes (1..=16) honouring data endianness. Caller checked mapping.
fn mem_read(cpu: &A64Cpu, addr: u64, len: u64) -> u128 {
    let mut val: u128 = 0;
    for i in 0..len {
        let b = *cpu.mem.get(&addr.wrapping_add(i)).expect("checked") as u128;
        let sh = if cpu.big_endian { 8 * (len - 1 - i) } else { 8 * i };
        val |= b << sh;
    }
    val
}

/// Write one element of `len` bytes honouring data endianness. Caller checked mapping.
fn mem_write(cpu: &mut A64Cpu, addr: u64, len: u64, val: u128) {
    for i in 0..len {
        let sh = if cpu.big_endian { 8 * (len - 1 - i) } else { 8 * i };
        cpu.mem.insert(addr.wrapping_add(i), (val >> sh) as u8);
    }
}

fn mask128(bytes: u64) -> u128 {
    if bytes >= 16 {
        u128::MAX
    } else {
        (1u128 << (8 * bytes)) - 1
    }
}

fn set_flags(cpu: &mut A64Cpu, n: bool, z: bool, c: bool, v: bool) {
    cpu.n = n;
    cpu.z = z;
    cpu.c = c;
    cpu.v = v;
}

fn add_sub_finish(cpu: &mut A64Cpu, sf: bool, sub: bool, setflags: bool, op1: u64, op2: u64, rd: u8, rd_is_sp: bool) {
    let dmask = if sf { u64::MAX } else { 0xffff_ffff };
    let (operand2, carry) = if sub { (!op2 & dmask, true) } else { (op2 & dmask, false) };
    let (result, n, z, c, v) = add_with_carry(op1 & dmask, operand2, carry, sf);
    if setflags {
        set_flags(cpu, n, z, c, v);
    }
    if rd_is_sp && !setflags {
        set_xr_sp(cpu, rd, result, sf);
    } else {
        set_xr(cpu, rd, result, sf);
    }
}

fn exec(cpu: &mut A64Cpu, pc: u64, op: Op) -> A64Outcome {
    let next = A64Outcome::Next { pc: pc.wrapping_add(4) };
    match op {
        Op::AddSubImm { sf, sub, setflags, imm, rn, rd } => {
            let op1 = xr_sp(cpu, rn);
            add_sub_finish(cpu, sf, sub, setflags, op1, imm, rd, true);
            next
        }
        Op::AddSubShift { sf, sub, setflags, shift_type, amount, rm, rn, rd } => {
            let op1 = xr(cpu, rn);
            let op2 = shift_val(xr(cpu, rm), shift_type, amount as u32, sf);
            add_sub_finish(cpu, sf, sub, setflags, op1, op2, rd, false);
            next
        }
        Op::AddSubExt { sf, sub, setflags, option, shift, rm, rn, rd } => {
            let op1 = xr_sp(cpu, rn);
            let op2 = extend_val(xr(cpu, rm), option, shift as u32, sf);
            add_sub_finish(cpu, sf, sub, setflags, op1, op2, rd, true);
            next
        }
        Op::MovWide { sf, opc, pos, imm16, rd } => {
            let mut result = if opc == 3 { xr(cpu, rd) } else { 0 };
            result &= !(0xffffu64 << pos);
            result |= (imm16 as u64) << pos;
            if opc == 0 {
                result = !result;
            }
            set_xr(cpu, rd, result, sf);
            next
        }
        Op::LogImm { sf, opc, imm, rn, rd } => {
            let dmask = if sf { u64::MAX } else { 0xffff_ffff };
            let op1 = xr(cpu, rn) & dmask;
            let result = match opc {
                0 | 3 => op1 & imm,
                1 => op1 | imm,
                _ => op1 ^ imm,
            } & dmask;
            if opc == 3 {
                let msb = if sf { 63 } else { 31 };
                set_flags(cpu, (result >> msb) & 1 == 1, result == 0, false, false);
                set_xr(cpu, rd, result, sf);
            } else {
                set_xr_sp(cpu, rd, result, sf);
            }
            next
        }
        Op::LogShift { sf, opc, invert, shift_type, amount, rm, rn, rd } => {
            let dmask = if sf { u64::MAX } else { 0xffff_ffff };
            let op1 = xr(cpu, rn) & dmask;
            let mut op2 = shift_val(xr(cpu, rm), shift_type, amount as u32, sf);
            if invert {
                op2 = !op2 & dmask;
            }
            let result = match opc {
                0 | 3 => op1 & op2,
                1 => op1 | op2,
                _ => op1 ^ op2,
            } & dmask;
            if opc == 3 {
                let msb = if sf { 63 } else { 31 };
                set_flags(cpu, (result >> msb) & 1 == 1, result == 0, false, false);
            }
            set_xr(cpu, rd, result, sf);
            next
        }
        Op::LdSt { memop, size, signed, regsize64, simd, rn, rt, addr } => {
            let (address, wb_val) = match addr {
                Addr::Imm { offset, wback, postindex } => {
                    let base = xr_sp(cpu, rn);
                    let sum = base.wrapping_add(offset as u64);
                    (if postindex { base } else { sum }, if wback { Some(sum) } else { None })
                }
                Addr::Reg { rm, option, shift } => {
                    let base = xr_sp(cpu, rn);
                    let off = extend_val(xr(cpu, rm), option, shift as u32, true);
                    (base.wrapping_add(off), None)
                }
                Addr::Lit { offset } => (pc.wrapping_add(offset as u64), None),
            };
            if memop == MemOp::Prefetch {
                return next;
            }
            let bytes = 1u64 << size;
            if let Err(a) = mem_check(cpu, address, bytes) {
                return A64Outcome::MemFault(a);
            }
            match memop {
                MemOp::Store => {
                    let data = if simd { cpu.vreg[rt as usize] } else { xr(cpu, rt) as u128 } & mask128(bytes);
                    mem_write(cpu, address, bytes, data);
                }
                _ => {
                    let data = mem_read(cpu, address, bytes);
                    if simd {
                        cpu.vreg[rt as usize] = data;
                    } else {
                        let d = data as u64;
                        let val = if signed { sext(d, 8 * bytes as u32) as u64 } else { d };
                        set_xr(cpu, rt, val, regsize64);
                    }
                }
            }
            if let Some(wb) = wb_val {
                set_xr_sp(cpu, rn, wb, true);
            }
            next
        }
        Op::LdStPair { load, scale, signed, simd, rn, rt, rt2, offset, wback, postindex } => {
            let base = xr_sp(cpu, rn);
            let sum = base.wrapping_add(offset as u64);
            let address = if postindex { base } else { sum };
            let dbytes = 1u64 << scale;
            if let Err(a) = mem_check(cpu, address, 2 * dbytes) {
                return A64Outcome::MemFault(a);
            }
            let address2 = address.wrapping_add(dbytes);
            if load {
                let d1 = mem_read(cpu, address, dbytes);
                let d2 = mem_read(cpu, address2, dbytes);
                if simd {
                    cpu.vreg[rt as usize] = d1;
                    cpu.vreg[rt2 as usize] = d2;
                } else if signed {
                    set_xr(cpu, rt, sext(d1 as u64, 8 * dbytes as u32) as u64, true);
                    set_xr(cpu, rt2, sext(d2 as u64, 8 * dbytes as u32) as u64, true);
                } else {
                    set_xr(cpu, rt, d1 as u64, scale == 3);
                    set_xr(cpu, rt2, d2 as u64, scale == 3);
                }
            } else {
                let (d1, d2) = if simd {
                    (cpu.vreg[rt as usize], cpu.vreg[rt2 as usize])
                } else {
                    (xr(cpu, rt) as u128, xr(cpu, rt2) as u128)
                };
                mem_write(cpu, address, dbytes, d1 & mask128(dbytes));
                mem_write(cpu, address2, dbytes, d2 & mask128(dbytes));
            }
            if wback {
                set_xr_sp(cpu, rn, sum, true);
            }
            next
        }
        Op::B { offset, link } => {
            if link {
                cpu.x[30] = pc.wrapping_add(4);
            }
            A64Outcome::Next { pc: pc.wrapping_add(offset as u64) }
        }
        Op::BReg { rn, link } => {
            let target = xr(cpu, rn);
            if link {
                cpu.x[30] = pc.wrapping_add(4);
            }
            A64Outcome::Next { pc: target }
        }
        Op::BCond { cond, offset } => {
            if condition_holds(cpu, cond) {
                A64Outcome::Next { pc: pc.wrapping_add(offset as u64) }
            } else {
                next
            }
        }
        Op::Cbz { sf, nz, offset, rt } => {
            let v = xr(cpu, rt) & if sf { u64::MAX } else { 0xffff_ffff };
            if (v == 0) != nz {
                A64Outcome::Next { pc: pc.wrapping_add(offset as u64) }
            } else {
                next
            }
        }
        Op::Tbz { bit_pos, nz, offset, rt } => {
            let b = (xr(cpu, rt) >> bit_pos) & 1 == 1;
            if b == nz {
                A64Outcome::Next { pc: pc.wrapping_add(offset as u64) }
            } else {
                next
            }
        }
        Op::Nop => next,
    }
}

/// Class name of a modelled word; None if UNDEFINED or not modelled.
pub fn class_of(word: u32) -> Option<&'static str> {
    match decode(word) {
        Dec::Ok(i) => Some(i.class),
        _ => None,
    }
}

/// Execute `word` located at address `pc`.
pub fn step(cpu: &mut A64Cpu, pc: u64, word: u32) -> A64Outcome {
    match decode(word) {
        Dec::Undefined => A64Outcome::Undefined,
        Dec::Unmodelled => A64Outcome::Unmodelled,
        Dec::Ok(insn) => {
            if let Some(why) = insn.unpredictable {
                return A64Outcome::Unpredictable(why);
            }
            exec(cpu, pc, insn.op)
        }
    }
}

// ---------------------------------------------------------------------------
// Tests.  Expected values are derived by hand from the Arm ARM pseudocode.
// ---------------------------------------------------------------------------

#[cfg(test)]
mod tests {
    use super::*;

    const PC: u64 = 0x10000;
    const T: bool = true;
    const F: bool = false;

    fn mk() -> A64Cpu {
        A64Cpu::new()
    }
    fn nxt() -> A64Outcome {
        A64Outcome::Next { pc: PC + 4 }
    }
    fn to(pc: u64) -> A64Outcome {
        A64Outcome::Next { pc }
    }
    fn run(c: &mut A64Cpu, w: u32) -> A64Outcome {
        step(c, PC, w)
    }
    fn map(c: &mut A64Cpu, addr: u64, bytes: &[u8]) {
        for (i, b) in bytes.iter().enumerate() {
            c.mem.insert(addr + i as u64, *b);
        }
    }
    fn rd(c: &A64Cpu, addr: u64, n: u64) -> Vec<u8> {
        (0..n).map(|i| *c.mem.get(&(addr + i)).expect("mapped")).collect()
    }
    /// (N, Z, C, V)
    fn fl(c: &A64Cpu) -> (bool, bool, bool, bool) {
        (c.n, c.z, c.c, c.v)
    }

    // ---------------- add/sub immediate ----------------

    #[test]
    fn add_imm_basic() {
        let mut c = mk();
        c.x[1] = 41;
        assert_eq!(class_of(0x91000420), Some("add_imm"));
        assert_eq!(run(&mut c, 0x91000420), nxt()); // add x0, x1, #1
        assert_eq!(c.x[0], 42);
        assert_eq!(fl(&c), (F, F, F, F)); // flags untouched
    }

    #[test]
    fn add_imm_lsl12() {
        let mut c = mk();
        c.x[3] = 1;
        assert_eq!(run(&mut c, 0x917FFC62), nxt()); // add x2, x3, #0xfff, lsl #12
        assert_eq!(c.x[2], 0xfff001);
    }

    #[test]
    fn sub_imm_sp_to_sp() {
        let mut c = mk();
        c.sp = 0x8000;
        assert_eq!(class_of(0xD10043FF), Some("sub_imm"));
        assert_eq!(run(&mut c, 0xD10043FF), nxt()); // sub sp, sp, #0x10
        assert_eq!(c.sp, 0x7ff0);
        assert_eq!(c.x, [0u64; 31]);
    }

    #[test]
    fn mov_from_sp_and_to_sp() {
        let mut c = mk();
        c.sp = 0x7fff_0000_1230;
        assert_eq!(run(&mut c, 0x910003FD), nxt()); // mov x29, sp  (add x29, sp, #0)
        assert_eq!(c.x[29], 0x7fff_0000_1230);
        c.x[0] = 0x4440;
        assert_eq!(run(&mut c, 0x9100001F), nxt()); // mov sp, x0  (add sp, x0, #0)
        assert_eq!(c.sp, 0x4440);
    }

    #[test]
    fn adds_imm_rd31_is_zr_rn31_is_sp() {
        let mut c = mk();
        c.sp = u64::MAX;
        assert_eq!(class_of(0xB10007FF), Some("adds_imm"));
        assert_eq!(run(&mut c, 0xB10007FF), nxt()); // cmn sp, #1  (adds xzr, sp, #1)
        assert_eq!(c.sp, u64::MAX); // Rd=31 is ZR, SP not written
        assert_eq!(fl(&c), (F, T, T, F)); // -1 + 1 = 0 carry out
    }

    #[test]
    fn add_imm_w_dest_wsp_zeroes_upper() {
        let mut c = mk();
        c.sp = 0xdead_0000_0000_0000;
        c.x[1] = 0x1234_5678_ffff_fffe;
        assert_eq!(run(&mut c, 0x1100043F), nxt()); // add wsp, w1, #1
        assert_eq!(c.sp, 0x0000_0000_ffff_ffff);
    }

    #[test]
    fn add_imm_w_wraps_and_zeroes_upper() {
        let mut c = mk();
        c.x[0] = 0x5555_5555_5555_5555;
        c.x[1] = u64::MAX;
        assert_eq!(run(&mut c, 0x11000420), nxt()); // add w0, w1, #1
        assert_eq!(c.x[0], 0);
    }

    #[test]
    fn sub_imm_w_from_wsp() {
        let mut c = mk();
        c.sp = 0xffff_ffff_0000_0002;
        assert_eq!(run(&mut c, 0x510013E0), nxt()); // sub w0, wsp, #4
        assert_eq!(c.x[0], 0xffff_fffe);
        assert_eq!(c.sp, 0xffff_ffff_0000_0002);
    }

    #[test]
    fn subs_imm_64_zero_minus_zero() {
        let mut c = mk();
        c.x[0] = 99;
        assert_eq!(class_of(0xF1000020), Some("subs_imm"));
        assert_eq!(run(&mut c, 0xF1000020), nxt()); // subs x0, x1, #0
        assert_eq!(c.x[0], 0);
        assert_eq!(fl(&c), (F, T, T, F)); // 0 + ~0 + 1: carry out, no borrow
    }

    #[test]
    fn subs_imm_64_zero_minus_one() {
        let mut c = mk();
        assert_eq!(run(&mut c, 0xF1000420), nxt()); // subs x0, x1, #1
        assert_eq!(c.x[0], u64::MAX);
        assert_eq!(fl(&c), (T, F, F, F)); // borrow => C=0
    }

    #[test]
    fn subs_imm_64_int_min_minus_one_overflows() {
        let mut c = mk();
        c.x[1] = 0x8000_0000_0000_0000;
        assert_eq!(run(&mut c, 0xF1000420), nxt()); // subs x0, x1, #1
        assert_eq!(c.x[0], 0x7fff_ffff_ffff_ffff);
        assert_eq!(fl(&c), (F, F, T, T));
    }

    #[test]
    fn adds_imm_64_int_max_plus_one() {
        let mut c = mk();
        c.x[1] = 0x7fff_ffff_ffff_ffff;
        assert_eq!(run(&mut c, 0xB1000420), nxt()); // adds x0, x1, #1
        assert_eq!(c.x[0], 0x8000_0000_0000_0000);
        assert_eq!(fl(&c), (T, F, F, T));
    }

    #[test]
    fn adds_imm_64_uint_max_plus_one() {
        let mut c = mk();
        c.x[1] = u64::MAX;
        assert_eq!(run(&mut c, 0xB1000420), nxt()); // adds x0, x1, #1
        assert_eq!(c.x[0], 0);
        assert_eq!(fl(&c), (F, T, T, F));
    }

    #[test]
    fn subs_imm_32_boundaries() {
        // subs w0, w1, #1 with w1 = INT32_MIN (upper half of X1 is junk and ignored)
        let mut c = mk();
        c.x[1] = 0xffff_ffff_8000_0000;
        assert_eq!(run(&mut c, 0x71000420), nxt()); // subs w0, w1, #1
        assert_eq!(c.x[0], 0x7fff_ffff);
        assert_eq!(fl(&c), (F, F, T, T));
        // subs w0, w1, #0 with w1 = 0 (bit 32 of X1 set)
        let mut c = mk();
        c.x[1] = 0x1_0000_0000;
        assert_eq!(run(&mut c, 0x71000020), nxt()); // subs w0, w1, #0
        assert_eq!(c.x[0], 0);
        assert_eq!(fl(&c), (F, T, T, F));
        // subs w0, w1, #1 with w1 = 0
        let mut c = mk();
        c.x[0] = u64::MAX;
        assert_eq!(run(&mut c, 0x71000420), nxt()); // subs w0, w1, #1
        assert_eq!(c.x[0], 0x0000_0000_ffff_ffff);
        assert_eq!(fl(&c), (T, F, F, F));
    }

    #[test]
    fn adds_imm_32_boundaries() {
        let mut c = mk();
        c.x[1] = 0x7fff_ffff;
        assert_eq!(run(&mut c, 0x31000420), nxt()); // adds w0, w1, #1
        assert_eq!(c.x[0], 0x8000_0000);
        assert_eq!(fl(&c), (T, F, F, T));
        let mut c = mk();
        c.x[1] = 0xffff_ffff;
        assert_eq!(run(&mut c, 0x31000420), nxt()); // adds w0, w1, #1
        assert_eq!(c.x[0], 0);
        assert_eq!(fl(&c), (F, T, T, F));
        // 64-bit value 0xffff_ffff + 1 does NOT set Z/C in the 64-bit form
        let mut c = mk();
        c.x[1] = 0xffff_ffff;
        assert_eq!(run(&mut c, 0xB1000420), nxt()); // adds x0, x1, #1
        assert_eq!(c.x[0], 0x1_0000_0000);
        assert_eq!(fl(&c), (F, F, F, F));
    }

    #[test]
    fn cmp_imm() {
        let mut c = mk();
        c.x[1] = 0x10;
        c.sp = 0x1234;
        assert_eq!(run(&mut c, 0xF100403F), nxt()); // cmp x1, #0x10 (subs xzr, x1, #0x10)
        assert_eq!(fl(&c), (F, T, T, F));
        assert_eq!(c.sp, 0x1234);
        c.x[1] = 0xf;
        assert_eq!(run(&mut c, 0xF100403F), nxt()); // cmp x1, #0x10
        assert_eq!(fl(&c), (T, F, F, F));
        c.x[1] = 0x11;
        assert_eq!(run(&mut c, 0xF100403F), nxt()); // cmp x1, #0x10
        assert_eq!(fl(&c), (F, F, T, F));
    }

    #[test]
    fn add_imm_tagged_form_is_unmodelled() {
        let mut c = mk();
        assert_eq!(run(&mut c, 0x91800420), A64Outcome::Unmodelled); // addg x0, x1, #0, #1 (bit 23 set)
        assert_eq!(class_of(0x91800420), None);
    }

    // ---------------- add/sub shifted register ----------------

    #[test]
    fn add_shift_lsl() {
        let mut c = mk();
        c.x[1] = 1;
        c.x[2] = 0x10;
        assert_eq!(class_of(0x8B021020), Some("add_shift"));
        assert_eq!(run(&mut c, 0x8B021020), nxt()); // add x0, x1, x2, lsl #4
        assert_eq!(c.x[0], 0x101);
    }

    #[test]
    fn sub_shift_lsr() {
        let mut c = mk();
        c.x[1] = 10;
        c.x[2] = 5;
        assert_eq!(class_of(0xCB420420), Some("sub_shift"));
        assert_eq!(run(&mut c, 0xCB420420), nxt()); // sub x0, x1, x2, lsr #1
        assert_eq!(c.x[0], 8);
    }

    #[test]
    fn add_shift_asr_64_and_32() {
        let mut c = mk();
        c.x[1] = 5;
        c.x[2] = 0x8000_0000_0000_0000;
        assert_eq!(run(&mut c, 0x8B82FC20), nxt()); // add x0, x1, x2, asr #63
        assert_eq!(c.x[0], 4);
        c.x[2] = 0x7777_7777_8000_0000;
        assert_eq!(run(&mut c, 0x0B827C20), nxt()); // add w0, w1, w2, asr #31
        assert_eq!(c.x[0], 4);
    }

    #[test]
    fn add_shift_undefined_encodings() {
        let mut c = mk();
        assert_eq!(run(&mut c, 0x0B028020), A64Outcome::Undefined); // add w0, w1, w2, lsl #32 (imm6<5>=1, sf=0)
        assert_eq!(run(&mut c, 0x8BC20020), A64Outcome::Undefined); // shift == 0b11
        assert_eq!(class_of(0x8BC20020), None);
    }

    #[test]
    fn cmp_reg() {
        let mut c = mk();
        c.x[0] = 1;
        c.x[1] = 2;
        assert_eq!(class_of(0xEB01001F), Some("subs_shift"));
        assert_eq!(run(&mut c, 0xEB01001F), nxt()); // cmp x0, x1
        assert_eq!(fl(&c), (T, F, F, F));
        c.x[0] = 2;
        assert_eq!(run(&mut c, 0xEB01001F), nxt()); // cmp x0, x1
        assert_eq!(fl(&c), (F, T, T, F));
        c.x[0] = 3;
        assert_eq!(run(&mut c, 0xEB01001F), nxt()); // cmp x0, x1
        assert_eq!(fl(&c), (F, F, T, F));
    }

    #[test]
    fn shifted_reg_31_is_zr_everywhere() {
        let mut c = mk();
        c.sp = 0x1000;
        c.x[2] = 7;
        assert_eq!(run(&mut c, 0x8B0203E0), nxt()); // add x0, xzr, x2
        assert_eq!(c.x[0], 7);
        c.x[1] = 3;
        assert_eq!(run(&mut c, 0x8B02003F), nxt()); // add xzr, x1, x2
        assert_eq!(c.sp, 0x1000);
        assert_eq!(run(&mut c, 0xCB1F0020), nxt()); // sub x0, x1, xzr
        assert_eq!(c.x[0], 3);
    }

    #[test]
    fn neg_alias() {
        let mut c = mk();
        c.x[1] = 1;
        assert_eq!(run(&mut c, 0xCB0103E0), nxt()); // neg x0, x1 (sub x0, xzr, x1)
        assert_eq!(c.x[0], u64::MAX);
    }

    #[test]
    fn cmn_w_alias() {
        let mut c = mk();
        c.x[0] = 0xffff_ffff;
        c.x[1] = 1;
        assert_eq!(class_of(0x2B01001F), Some("adds_shift"));
        assert_eq!(run(&mut c, 0x2B01001F), nxt()); // cmn w0, w1 (adds wzr, w0, w1)
        assert_eq!(fl(&c), (F, T, T, F));
        assert_eq!(c.x[0], 0xffff_ffff);
    }

    #[test]
    fn subs_shift_overflow() {
        let mut c = mk();
        c.x[1] = 0x8000_0000_0000_0000;
        c.x[2] = 1;
        assert_eq!(run(&mut c, 0xEB020020), nxt()); // subs x0, x1, x2
        assert_eq!(c.x[0], 0x7fff_ffff_ffff_ffff);
        assert_eq!(fl(&c), (F, F, T, T));
    }

    // ---------------- add/sub extended register ----------------

    #[test]
    fn add_ext_uxtb_uxth_uxtw_uxtx() {
        let mut c = mk();
        c.x[1] = 1;
        c.x[2] = 0x1ff;
        assert_eq!(class_of(0x8B220820), Some("add_ext"));
        assert_eq!(run(&mut c, 0x8B220820), nxt()); // add x0, x1, w2, uxtb #2
        assert_eq!(c.x[0], 0x3fd); // (0xff << 2) + 1
        c.x[1] = 0;
        c.x[2] = 0x12345;
        assert_eq!(run(&mut c, 0x8B222420), nxt()); // add x0, x1, w2, uxth #1
        assert_eq!(c.x[0], 0x468a); // 0x2345 << 1
        c.x[1] = 8;
        c.x[2] = u64::MAX;
        assert_eq!(run(&mut c, 0x8B224C20), nxt()); // add x0, x1, w2, uxtw #3
        assert_eq!(c.x[0], 0x8_0000_0000); // 0x7_ffff_fff8 + 8
        c.x[1] = 0;
        c.x[2] = 0xf000_0000_0000_0001;
        assert_eq!(run(&mut c, 0x8B227020), nxt()); // add x0, x1, x2, uxtx #4
        assert_eq!(c.x[0], 0x10);
    }

    #[test]
    fn add_ext_uxtw_no_shift() {
        let mut c = mk();
        c.x[1] = 0x1_0000_0000;
        c.x[2] = 0xaaaa_bbbb_8000_0001;
        assert_eq!(run(&mut c, 0x8B224020), nxt()); // add x0, x1, w2, uxtw
        assert_eq!(c.x[0], 0x1_8000_0001);
    }

    #[test]
    fn add_ext_sxtb_sxth_sxtw_sxtx() {
        let mut c = mk();
        c.x[1] = 0x100;
        c.x[2] = 0x80;
        assert_eq!(run(&mut c, 0x8B228020), nxt()); // add x0, x1, w2, sxtb
        assert_eq!(c.x[0], 0x80); // 0x100 - 128
        c.x[1] = 4;
        c.x[2] = 0xffff;
        assert_eq!(run(&mut c, 0x8B22A820), nxt()); // add x0, x1, w2, sxth #2
        assert_eq!(c.x[0], 0); // 4 + (-1 << 2)
        c.x[1] = 0;
        c.x[2] = 0x8000_0000;
        assert_eq!(run(&mut c, 0x8B22C420), nxt()); // add x0, x1, w2, sxtw #1
        assert_eq!(c.x[0], 0xffff_ffff_0000_0000);
        c.x[1] = 8;
        c.x[2] = 1;
        assert_eq!(class_of(0xCB22EC20), Some("sub_ext"));
        assert_eq!(run(&mut c, 0xCB22EC20), nxt()); // sub x0, x1, x2, sxtx #3
        assert_eq!(c.x[0], 0);
    }

    #[test]
    fn add_ext_sp_selection() {
        let mut c = mk();
        c.sp = 0x1000;
        c.x[2] = 0x20;
        assert_eq!(run(&mut c, 0x8B2263FF), nxt()); // add sp, sp, x2  (uxtx/lsl #0)
        assert_eq!(c.sp, 0x1020);
        // Rm = 31 is ZR, Rn = 31 is SP
        assert_eq!(run(&mut c, 0x8B3F63E0), nxt()); // add x0, sp, xzr, uxtx
        assert_eq!(c.x[0], 0x1020);
    }

    #[test]
    fn adds_ext_rd31_is_zr() {
        let mut c = mk();
        c.sp = u64::MAX;
        c.x[2] = 0xffff_ffff_0000_0001;
        assert_eq!(class_of(0xAB2243FF), Some("adds_ext"));
        assert_eq!(run(&mut c, 0xAB2243FF), nxt()); // cmn sp, w2, uxtw (adds xzr, sp, w2, uxtw)
        assert_eq!(c.sp, u64::MAX);
        assert_eq!(fl(&c), (F, T, T, F));
    }

    #[test]
    fn subs_ext_32bit() {
        let mut c = mk();
        c.x[1] = 0x10;
        c.x[2] = 0x110;
        assert_eq!(class_of(0x6B220020), Some("subs_ext"));
        assert_eq!(run(&mut c, 0x6B220020), nxt()); // subs w0, w1, w2, uxtb
        assert_eq!(c.x[0], 0);
        assert_eq!(fl(&c), (F, T, T, F));
    }

    #[test]
    fn add_ext_32bit_sign_extension_and_sxtx_clamp() {
        let mut c = mk();
        c.x[0] = u64::MAX;
        c.x[1] = 3;
        c.x[2] = 0xff;
        assert_eq!(run(&mut c, 0x0B228420), nxt()); // add w0, w1, w2, sxtb #1
        assert_eq!(c.x[0], 1); // 3 + 0xfffffffe mod 2^32
        c.x[1] = 0;
        c.x[2] = 0x0800_0001;
        assert_eq!(run(&mut c, 0x0B22F020), nxt()); // add w0, w1, w2, sxtx #4 (len = min(64, 32-4))
        assert_eq!(c.x[0], 0x8000_0010);
    }

    #[test]
    fn add_ext_undefined_encodings() {
        let mut c = mk();
        assert_eq!(run(&mut c, 0x8B221420), A64Outcome::Undefined); // imm3 == 5
        assert_eq!(run(&mut c, 0x8B624020), A64Outcome::Undefined); // opt (bits 23:22) != 00
    }

    // ---------------- move wide ----------------

    #[test]
    fn movz_forms() {
        let mut c = mk();
        c.x[0] = u64::MAX;
        assert_eq!(class_of(0x52800020), Some("movz"));
        assert_eq!(run(&mut c, 0x52800020), nxt()); // mov w0, #1 (movz w0, #1)
        assert_eq!(c.x[0], 1);
        assert_eq!(run(&mut c, 0xD2E24680), nxt()); // movz x0, #0x1234, lsl #48
        assert_eq!(c.x[0], 0x1234_0000_0000_0000);
    }

    #[test]
    fn movn_forms() {
        let mut c = mk();
        assert_eq!(class_of(0x92800000), Some("movn"));
        assert_eq!(run(&mut c, 0x92800000), nxt()); // movn x0, #0
        assert_eq!(c.x[0], u64::MAX);
        assert_eq!(run(&mut c, 0x12A24680), nxt()); // movn w0, #0x1234, lsl #16
        assert_eq!(c.x[0], 0x0000_0000_edcb_ffff);
    }

    #[test]
    fn movk_forms() {
        let mut c = mk();
        c.x[0] = 0x1111_2222_3333_4444;
        assert_eq!(class_of(0xF2B7DDE0), Some("movk"));
        assert_eq!(run(&mut c, 0xF2B7DDE0), nxt()); // movk x0, #0xbeef, lsl #16
        assert_eq!(c.x[0], 0x1111_2222_beef_4444);
        c.x[0] = 0xaaaa_bbbb_cccc_dddd;
        assert_eq!(run(&mut c, 0x729FFFE0), nxt()); // movk w0, #0xffff
        assert_eq!(c.x[0], 0x0000_0000_cccc_ffff);
    }

    #[test]
    fn movwide_undefined_and_zr() {
        let mut c = mk();
        c.sp = 0x77;
        assert_eq!(run(&mut c, 0x52C00000), A64Outcome::Undefined); // movz w0, #0, lsl #32 (hw<1>=1, sf=0)
        assert_eq!(run(&mut c, 0xB2800000), A64Outcome::Undefined); // opc == 01
        assert_eq!(run(&mut c, 0xD28000BF), nxt()); // movz xzr, #5
        assert_eq!(c.sp, 0x77);
        assert_eq!(c.x, [0u64; 31]);
    }

    // ---------------- DecodeBitMasks / logical immediate ----------------

    #[test]
    fn decode_bit_masks_element_sizes() {
        // (N, imms, immr, M)
        assert_eq!(decode_bit_masks(0, 0b111100, 0, 32), Some(0x5555_5555)); // esize 2
        assert_eq!(decode_bit_masks(0, 0b111100, 1, 32), Some(0xaaaa_aaaa)); // esize 2 rotated
        assert_eq!(decode_bit_masks(0, 0b111000, 0, 64), Some(0x1111_1111_1111_1111)); // esize 4
        assert_eq!(decode_bit_masks(0, 0b111001, 1, 64), Some(0x9999_9999_9999_9999)); // esize 4, 0011 ror 1
        assert_eq!(decode_bit_masks(0, 0b110011, 0, 32), Some(0x0f0f_0f0f)); // esize 8
        assert_eq!(decode_bit_masks(0, 0b110011, 4, 32), Some(0xf0f0_f0f0)); // esize 8 ror 4
        assert_eq!(decode_bit_masks(0, 0b100111, 0, 32), Some(0x00ff_00ff)); // esize 16
        assert_eq!(decode_bit_masks(0, 0b100111, 8, 64), Some(0xff00_ff00_ff00_ff00)); // esize 16 ror 8
        assert_eq!(decode_bit_masks(0, 0b001111, 0, 64), Some(0x0000_ffff_0000_ffff)); // esize 32
        assert_eq!(decode_bit_masks(0, 0b001111, 16, 32), Some(0xffff_0000)); // esize 32 ror 16
        assert_eq!(decode_bit_masks(1, 0b000111, 0, 64), Some(0xff)); // esize 64
        assert_eq!(decode_bit_masks(1, 62, 63, 64), Some(0xffff_ffff_ffff_fffe)); // 63 ones ror 63
        assert_eq!(decode_bit_masks(1, 0, 1, 64), Some(0x8000_0000_0000_0000));
        // immr bits above the element size are ignored
        assert_eq!(decode_bit_masks(0, 0b111100, 2, 32), Some(0x5555_5555));
    }

    #[test]
    fn decode_bit_masks_reserved() {
        assert_eq!(decode_bit_masks(1, 0b111111, 0, 64), None); // esize 64, S all ones
        assert_eq!(decode_bit_masks(0, 0b111111, 0, 64), None); // no set bit in N:NOT(imms)
        assert_eq!(decode_bit_masks(0, 0b111110, 0, 64), None); // len == 0
        assert_eq!(decode_bit_masks(0, 0b111101, 0, 64), None); // esize 2, S all ones
        assert_eq!(decode_bit_masks(0, 0b101111, 0, 32), None); // esize 16, S all ones
        assert_eq!(decode_bit_masks(0, 0b011111, 0, 32), None); // esize 32, S all ones
        assert_eq!(decode_bit_masks(1, 0b000111, 0, 32), None); // esize 64 > M
    }

    #[test]
    fn and_imm_basic() {
        let mut c = mk();
        c.x[1] = 0x1234_5678_9abc_def0;
        assert_eq!(class_of(0x92401C20), Some("and_imm"));
        assert_eq!(run(&mut c, 0x92401C20), nxt()); // and x0, x1, #0xff
        assert_eq!(c.x[0], 0xf0);
        assert_eq!(run(&mut c, 0x927FF820), nxt()); // and x0, x1, #0xfffffffffffffffe
        assert_eq!(c.x[0], 0x1234_5678_9abc_def0);
        assert_eq!(run(&mut c, 0x92003C20), nxt()); // and x0, x1, #0x0000ffff0000ffff
        assert_eq!(c.x[0], 0x0000_5678_0000_def0);
        assert_eq!(run(&mut c, 0x12103C20), nxt()); // and w0, w1, #0xffff0000
        assert_eq!(c.x[0], 0x9abc_0000);
        assert_eq!(run(&mut c, 0x1201F020), nxt()); // and w0, w1, #0xaaaaaaaa
        assert_eq!(c.x[0], 0x8aa8_8aa0);
        assert_eq!(run(&mut c, 0x1204CC20), nxt()); // and w0, w1, #0xf0f0f0f0
        assert_eq!(c.x[0], 0x90b0_d0f0);
    }

    #[test]
    fn orr_imm_mov_alias_and_sp_dest() {
        let mut c = mk();
        c.sp = 0x5000;
        assert_eq!(class_of(0xB24003E0), Some("orr_imm"));
        assert_eq!(run(&mut c, 0xB24003E0), nxt()); // mov x0, #1 (orr x0, xzr, #1): Rn=31 is ZR
        assert_eq!(c.x[0], 1);
        assert_eq!(run(&mut c, 0xB2401FFF), nxt()); // orr sp, xzr, #0xff: Rd=31 is SP
        assert_eq!(c.sp, 0xff);
        assert_eq!(run(&mut c, 0x32009FE0), nxt()); // mov w0, #0x00ff00ff (orr w0, wzr, #0x00ff00ff)
        assert_eq!(c.x[0], 0x00ff_00ff);
        assert_eq!(run(&mut c, 0x32089FE0), nxt()); // orr w0, wzr, #0xff00ff00
        assert_eq!(c.x[0], 0xff00_ff00);
        c.x[1] = 0x8000_0000_0000_0000;
        assert_eq!(run(&mut c, 0xB200E020), nxt()); // orr x0, x1, #0x1111111111111111
        assert_eq!(c.x[0], 0x9111_1111_1111_1111);
        assert_eq!(run(&mut c, 0xB201E420), nxt()); // orr x0, x1, #0x9999999999999999
        assert_eq!(c.x[0], 0x9999_9999_9999_9999);
    }

    #[test]
    fn eor_imm_w() {
        let mut c = mk();
        c.x[1] = 0xffff_ffff_ffff_ffff;
        assert_eq!(class_of(0x5200F020), Some("eor_imm"));
        assert_eq!(run(&mut c, 0x5200F020), nxt()); // eor w0, w1, #0x55555555
        assert_eq!(c.x[0], 0xaaaa_aaaa);
        assert_eq!(run(&mut c, 0x5202F020), nxt()); // same pattern, immr=2 (ignored above esize)
        assert_eq!(c.x[0], 0xaaaa_aaaa);
    }

    #[test]
    fn ands_imm_flags_and_zr_dest() {
        let mut c = mk();
        c.c = true;
        c.v = true;
        c.x[1] = u64::MAX;
        assert_eq!(class_of(0xF2410020), Some("ands_imm"));
        assert_eq!(run(&mut c, 0xF2410020), nxt()); // ands x0, x1, #0x8000000000000000
        assert_eq!(c.x[0], 0x8000_0000_0000_0000);
        assert_eq!(fl(&c), (T, F, F, F)); // C and V cleared
        c.sp = 0x42;
        c.x[1] = 2;
        assert_eq!(run(&mut c, 0xF240003F), nxt()); // tst x1, #1 (ands xzr, x1, #1)
        assert_eq!(c.sp, 0x42); // Rd=31 is ZR for ANDS
        assert_eq!(fl(&c), (F, T, F, F));
    }

    #[test]
    fn logical_imm_undefined() {
        let mut c = mk();
        assert_eq!(run(&mut c, 0x9240FC20), A64Outcome::Undefined); // N=1 imms=111111
        assert_eq!(run(&mut c, 0x9200FC20), A64Outcome::Undefined); // N=0 imms=111111
        assert_eq!(run(&mut c, 0x9200F820), A64Outcome::Undefined); // N=0 imms=111110
        assert_eq!(run(&mut c, 0x9200F420), A64Outcome::Undefined); // N=0 imms=111101
        assert_eq!(run(&mut c, 0x1200BC20), A64Outcome::Undefined); // N=0 imms=101111
        assert_eq!(run(&mut c, 0x12401C20), A64Outcome::Undefined); // sf=0 N=1
        assert_eq!(class_of(0x12401C20), None);
    }

    // ---------------- logical shifted register ----------------

    #[test]
    fn mov_reg_alias_uses_zr_not_sp() {
        let mut c = mk();
        c.sp = 0xdead;
        c.x[1] = 0x1234;
        assert_eq!(class_of(0xAA0103E0), Some("orr_shift"));
        assert_eq!(run(&mut c, 0xAA0103E0), nxt()); // mov x0, x1 (orr x0, xzr, x1)
        assert_eq!(c.x[0], 0x1234);
    }

    #[test]
    fn mvn_w_alias() {
        let mut c = mk();
        c.x[0] = u64::MAX;
        assert_eq!(class_of(0x2A2103E0), Some("orn_shift"));
        assert_eq!(run(&mut c, 0x2A2103E0), nxt()); // mvn w0, w1 (orn w0, wzr, w1)
        assert_eq!(c.x[0], 0xffff_ffff);
    }

    #[test]
    fn bic_eor_eon_orr_shifts() {
        let mut c = mk();
        c.x[1] = 0xffff;
        c.x[2] = 0xf;
        assert_eq!(class_of(0x8A221020), Some("bic_shift"));
        assert_eq!(run(&mut c, 0x8A221020), nxt()); // bic x0, x1, x2, lsl #4
        assert_eq!(c.x[0], 0xff0f);
        c.x[1] = 0;
        c.x[2] = 0xff;
        assert_eq!(class_of(0xCAC22020), Some("eor_shift"));
        assert_eq!(run(&mut c, 0xCAC22020), nxt()); // eor x0, x1, x2, ror #8
        assert_eq!(c.x[0], 0xff00_0000_0000_0000);
        assert_eq!(run(&mut c, 0x4AC22020), nxt()); // eor w0, w1, w2, ror #8
        assert_eq!(c.x[0], 0xff00_0000);
        c.x[1] = 0x1234;
        c.x[2] = 0x1234;
        assert_eq!(class_of(0xCA220020), Some("eon_shift"));
        assert_eq!(run(&mut c, 0xCA220020), nxt()); // eon x0, x1, x2
        assert_eq!(c.x[0], u64::MAX);
        c.x[1] = 0x10;
        c.x[2] = 0xf000_0000_0000_0000;
        assert_eq!(run(&mut c, 0xAA42F020), nxt()); // orr x0, x1, x2, lsr #60
        assert_eq!(c.x[0], 0x1f);
    }

    #[test]
    fn ands_bics_tst_shift() {
        let mut c = mk();
        c.c = true;
        c.v = true;
        c.x[1] = 0x8000_0000;
        c.x[2] = 0xffff_ffff;
        assert_eq!(class_of(0x6A020020), Some("ands_shift"));
        assert_eq!(run(&mut c, 0x6A020020), nxt()); // ands w0, w1, w2
        assert_eq!(c.x[0], 0x8000_0000);
        assert_eq!(fl(&c), (T, F, F, F));
        c.x[1] = 5;
        c.x[2] = 5;
        assert_eq!(class_of(0xEA220020), Some("bics_shift"));
        assert_eq!(run(&mut c, 0xEA220020), nxt()); // bics x0, x1, x2
        assert_eq!(c.x[0], 0);
        assert_eq!(fl(&c), (F, T, F, F));
        c.sp = 9;
        assert_eq!(run(&mut c, 0xEA02003F), nxt()); // tst x1, x2 (ands xzr, x1, x2)
        assert_eq!(c.sp, 9);
        assert_eq!(fl(&c), (F, F, F, F));
        // 64-bit ANDS of 0x8000_0000 is not negative
        c.x[1] = 0x8000_0000;
        c.x[2] = 0xffff_ffff;
        assert_eq!(run(&mut c, 0xEA020020), nxt()); // ands x0, x1, x2
        assert_eq!(fl(&c), (F, F, F, F));
    }

    #[test]
    fn logical_shift_undefined() {
        let mut c = mk();
        assert_eq!(run(&mut c, 0x0A028020), A64Outcome::Undefined); // and w0, w1, w2, lsl #32
    }

    // ---------------- loads/stores: unsigned offset ----------------

    const DATA: [u8; 16] = [
        0x00, 0x11, 0x22, 0x33, 0x44, 0x55, 0x66, 0x77, 0x88, 0x99, 0xaa, 0xbb, 0xcc, 0xdd, 0xee, 0xff,
    ];

    #[test]
    fn ldr_uoff_x_and_w() {
        let mut c = mk();
        map(&mut c, 0x2000, &DATA);
        c.x[1] = 0x2000;
        assert_eq!(class_of(0xF9400020), Some("ldr_uoff"));
        assert_eq!(run(&mut c, 0xF9400020), nxt()); // ldr x0, [x1]
        assert_eq!(c.x[0], 0x7766_5544_3322_1100);
        assert_eq!(run(&mut c, 0xF9400420), nxt()); // ldr x0, [x1, #8]
        assert_eq!(c.x[0], 0xffee_ddcc_bbaa_9988);
        assert_eq!(run(&mut c, 0xB9400420), nxt()); // ldr w0, [x1, #4]
        assert_eq!(c.x[0], 0x7766_5544);
        assert_eq!(c.x[1], 0x2000);
    }

    #[test]
    fn ldr_uoff_max_scaled_offset() {
        let mut c = mk();
        map(&mut c, 0x2000 + 32760, &DATA[..8]);
        c.x[1] = 0x2000;
        assert_eq!(run(&mut c, 0xF97FFC20), nxt()); // ldr x0, [x1, #32760]
        assert_eq!(c.x[0], 0x7766_5544_3322_1100);
    }

    #[test]
    fn ldr_big_endian() {
        let mut c = mk();
        c.big_endian = true;
        map(&mut c, 0x2000, &DATA);
        c.x[1] = 0x2000;
        assert_eq!(run(&mut c, 0xF9400020), nxt()); // ldr x0, [x1]
        assert_eq!(c.x[0], 0x0011_2233_4455_6677);
        assert_eq!(run(&mut c, 0xB9400420), nxt()); // ldr w0, [x1, #4]
        assert_eq!(c.x[0], 0x4455_6677);
        assert_eq!(run(&mut c, 0x79400420), nxt()); // ldrh w0, [x1, #2]
        assert_eq!(c.x[0], 0x2233);
    }

    #[test]
    fn str_uoff_sp_base() {
        let mut c = mk();
        map(&mut c, 0x3000, &[0u8; 16]);
        c.sp = 0x3000;
        c.x[0] = 0x0102_0304_0506_0708;
        assert_eq!(class_of(0xF90007E0), Some("str_uoff"));
        assert_eq!(run(&mut c, 0xF90007E0), nxt()); // str x0, [sp, #8]
        assert_eq!(rd(&c, 0x3000, 16), vec![0, 0, 0, 0, 0, 0, 0, 0, 8, 7, 6, 5, 4, 3, 2, 1]);
        c.big_endian = true;
        assert_eq!(run(&mut c, 0xF90007E0), nxt()); // str x0, [sp, #8]
        assert_eq!(rd(&c, 0x3008, 8), vec![1, 2, 3, 4, 5, 6, 7, 8]);
    }

    #[test]
    fn ldrb_ldrh_zero_extend() {
        let mut c = mk();
        map(&mut c, 0x2000, &DATA);
        c.x[1] = 0x2000;
        c.x[0] = u64::MAX;
        assert_eq!(class_of(0x39400C20), Some("ldrb_uoff"));
        assert_eq!(run(&mut c, 0x39400C20), nxt()); // ldrb w0, [x1, #3]
        assert_eq!(c.x[0], 0x33);
        c.x[0] = u64::MAX;
        assert_eq!(class_of(0x79400420), Some("ldrh_uoff"));
        assert_eq!(run(&mut c, 0x79400420), nxt()); // ldrh w0, [x1, #2]
        assert_eq!(c.x[0], 0x3322);
    }

    #[test]
    fn ldrsb_ldrsh_ldrsw_sign_extend() {
        let mut c = mk();
        map(&mut c, 0x2000, &[0x80, 0xff, 0x00, 0x80]);
        c.x[1] = 0x2000;
        assert_eq!(class_of(0x39800020), Some("ldrsb_uoff"));
        assert_eq!(run(&mut c, 0x39800020), nxt()); // ldrsb x0, [x1]
        assert_eq!(c.x[0], 0xffff_ffff_ffff_ff80);
        assert_eq!(run(&mut c, 0x39C00020), nxt()); // ldrsb w0, [x1]
        assert_eq!(c.x[0], 0x0000_0000_ffff_ff80); // upper 32 bits zeroed
        assert_eq!(class_of(0x79800020), Some("ldrsh_uoff"));
        assert_eq!(run(&mut c, 0x79800020), nxt()); // ldrsh x0, [x1]
        assert_eq!(c.x[0], 0xffff_ffff_ffff_ff80);
        assert_eq!(run(&mut c, 0x79C00020), nxt()); // ldrsh w0, [x1]
        assert_eq!(c.x[0], 0x0000_0000_ffff_ff80);
        assert_eq!(class_of(0xB9800020), Some("ldrsw_uoff"));
        assert_eq!(run(&mut c, 0xB9800020), nxt()); // ldrsw x0, [x1]
        assert_eq!(c.x[0], 0xffff_ffff_8000_ff80);
    }

    #[test]
    fn strb_strh_str_w_truncate() {
        let mut c = mk();
        map(&mut c, 0x2000, &[0xee; 8]);
        c.x[1] = 0x2000;
        c.x[0] = 0x1122_3344_5566_7788;
        assert_eq!(class_of(0x39000020), Some("strb_uoff"));
        assert_eq!(run(&mut c, 0x39000020), nxt()); // strb w0, [x1]
        assert_eq!(rd(&c, 0x2000, 8), vec![0x88, 0xee, 0xee, 0xee, 0xee, 0xee, 0xee, 0xee]);
        assert_eq!(class_of(0x79000020), Some("strh_uoff"));
        assert_eq!(run(&mut c, 0x79000020), nxt()); // strh w0, [x1]
        assert_eq!(rd(&c, 0x2000, 8), vec![0x88, 0x77, 0xee, 0xee, 0xee, 0xee, 0xee, 0xee]);
        assert_eq!(run(&mut c, 0xB9000020), nxt()); // str w0, [x1]
        assert_eq!(rd(&c, 0x2000, 8), vec![0x88, 0x77, 0x66, 0x55, 0xee, 0xee, 0xee, 0xee]);
    }

    #[test]
    fn ldst_rt31_is_zr() {
        let mut c = mk();
        map(&mut c, 0x2000, &[0xee; 8]);
        c.x[1] = 0x2000;
        c.sp = 0x1234_5678;
        assert_eq!(run(&mut c, 0xF940003F), nxt()); // ldr xzr, [x1]
        assert_eq!(c.sp, 0x1234_5678);
        assert_eq!(run(&mut c, 0xF900003F), nxt()); // str xzr, [x1]
        assert_eq!(rd(&c, 0x2000, 8), vec![0; 8]);
        // the discarded load still faults on unmapped memory
        c.x[1] = 0x9000;
        assert_eq!(run(&mut c, 0xF940003F), A64Outcome::MemFault(0x9000)); // ldr xzr, [x1]
    }

    #[test]
    fn ldst_uoff_unallocated_opc() {
        let mut c = mk();
        assert_eq!(run(&mut c, 0xB9C00020), A64Outcome::Undefined); // size=10 opc=11
        assert_eq!(run(&mut c, 0xF9C00020), A64Outcome::Undefined); // size=11 opc=11
    }

    // ---------------- loads/stores: pre/post/unscaled ----------------

    #[test]
    fn ldr_post_index() {
        let mut c = mk();
        map(&mut c, 0x2000, &DATA);
        c.x[1] = 0x2000;
        assert_eq!(class_of(0xF8408420), Some("ldr_post"));
        assert_eq!(run(&mut c, 0xF8408420), nxt()); // ldr x0, [x1], #8
        assert_eq!(c.x[0], 0x7766_5544_3322_1100); // accessed at the old base
        assert_eq!(c.x[1], 0x2008);
    }

    #[test]
    fn ldr_pre_index() {
        let mut c = mk();
        map(&mut c, 0x2000, &DATA);
        c.x[1] = 0x2000;
        assert_eq!(class_of(0xF8408C20), Some("ldr_pre"));
        assert_eq!(run(&mut c, 0xF8408C20), nxt()); // ldr x0, [x1, #8]!
        assert_eq!(c.x[0], 0xffee_ddcc_bbaa_9988); // accessed at base + 8
        assert_eq!(c.x[1], 0x2008);
    }

    #[test]
    fn ldur_negative_offset() {
        let mut c = mk();
        map(&mut c, 0x2000, &DATA);
        c.x[1] = 0x2008;
        assert_eq!(class_of(0xF85F8020), Some("ldr_unscaled"));
        assert_eq!(run(&mut c, 0xF85F8020), nxt()); // ldur x0, [x1, #-8]
        assert_eq!(c.x[0], 0x7766_5544_3322_1100);
        assert_eq!(c.x[1], 0x2008);
    }

    #[test]
    fn str_pre_index_sp_push() {
        let mut c = mk();
        map(&mut c, 0x3000, &[0xee; 32]);
        c.sp = 0x3010;
        c.x[0] = 0x0102_0304_0506_0708;
        assert_eq!(class_of(0xF81F0FE0), Some("str_pre"));
        assert_eq!(run(&mut c, 0xF81F0FE0), nxt()); // str x0, [sp, #-16]!
        assert_eq!(c.sp, 0x3000);
        assert_eq!(rd(&c, 0x3000, 8), vec![8, 7, 6, 5, 4, 3, 2, 1]);
        assert_eq!(rd(&c, 0x3008, 8), vec![0xee; 8]);
    }

    #[test]
    fn ldr_post_index_sp_pop() {
        let mut c = mk();
        map(&mut c, 0x3000, &DATA);
        c.sp = 0x3000;
        assert_eq!(run(&mut c, 0xF84107E0), nxt()); // ldr x0, [sp], #16
        assert_eq!(c.x[0], 0x7766_5544_3322_1100);
        assert_eq!(c.sp, 0x3010);
    }

    #[test]
    fn writeback_rn_eq_rt_unpredictable() {
        let mut c = mk();
        map(&mut c, 0x2000, &DATA);
        c.x[1] = 0x2000;
        let before = c.clone();
        assert!(matches!(run(&mut c, 0xF8008C21), A64Outcome::Unpredictable(_))); // str x1, [x1, #8]!
        assert!(matches!(run(&mut c, 0xF8408421), A64Outcome::Unpredictable(_))); // ldr x1, [x1], #8
        assert_eq!(c, before);
        assert_eq!(class_of(0xF8408421), Some("ldr_post"));
        // no writeback: Rn == Rt is fine
        assert_eq!(run(&mut c, 0xF9400021), nxt()); // ldr x1, [x1]
        assert_eq!(c.x[1], 0x7766_5544_3322_1100);
    }

    #[test]
    fn writeback_rt31_rn31_stores_zero_and_is_not_unpredictable() {
        let mut c = mk();
        map(&mut c, 0x3000, &[0xee; 32]);
        c.sp = 0x3010;
        assert_eq!(run(&mut c, 0xF81F0FFF), nxt()); // str xzr, [sp, #-16]!
        assert_eq!(c.sp, 0x3000);
        assert_eq!(rd(&c, 0x3000, 8), vec![0; 8]);
        assert_eq!(run(&mut c, 0xF84107FF), nxt()); // ldr xzr, [sp], #16
        assert_eq!(c.sp, 0x3010);
    }

    #[test]
    fn byte_half_writeback_forms() {
        let mut c = mk();
        map(&mut c, 0x2000, &DATA);
        c.x[1] = 0x2005;
        assert_eq!(class_of(0x385FF420), Some("ldrb_post"));
        assert_eq!(run(&mut c, 0x385FF420), nxt()); // ldrb w0, [x1], #-1
        assert_eq!(c.x[0], 0x55);
        assert_eq!(c.x[1], 0x2004);
        c.x[0] = 0xabcd;
        assert_eq!(class_of(0x78002C20), Some("strh_pre"));
        assert_eq!(run(&mut c, 0x78002C20), nxt()); // strh w0, [x1, #2]!
        assert_eq!(c.x[1], 0x2006);
        assert_eq!(rd(&c, 0x2004, 4), vec![0x44, 0x55, 0xcd, 0xab]);
    }

    #[test]
    fn unscaled_signed_and_byte_forms() {
        let mut c = mk();
        map(&mut c, 0x2000, &DATA);
        c.x[1] = 0x200c;
        assert_eq!(class_of(0xB89FC020), Some("ldrsw_unscaled"));
        assert_eq!(run(&mut c, 0xB89FC020), nxt()); // ldursw x0, [x1, #-4]
        assert_eq!(c.x[0], 0xffff_ffff_bbaa_9988);
        assert_eq!(class_of(0x38C01020), Some("ldrsb_unscaled"));
        assert_eq!(run(&mut c, 0x38C01020), nxt()); // ldursb w0, [x1, #1]
        assert_eq!(c.x[0], 0x0000_0000_ffff_ffdd);
        c.x[0] = 0x1ff;
        assert_eq!(class_of(0x381FF020), Some("strb_unscaled"));
        assert_eq!(run(&mut c, 0x381FF020), nxt()); // sturb w0, [x1, #-1]
        assert_eq!(rd(&c, 0x200a, 3), vec![0xaa, 0xff, 0xcc]);
        assert_eq!(class_of(0xB8804420), Some("ldrsw_post"));
        assert_eq!(run(&mut c, 0xB8804420), nxt()); // ldrsw x0, [x1], #4
        assert_eq!(c.x[0], 0xffff_ffff_ffee_ddcc);
        assert_eq!(c.x[1], 0x2010);
    }

    #[test]
    fn unprivileged_behaves_as_unscaled() {
        let mut c = mk();
        map(&mut c, 0x2000, &DATA);
        c.x[1] = 0x2000;
        assert_eq!(class_of(0xF8408820), Some("ldr_unpriv"));
        assert_eq!(run(&mut c, 0xF8408820), nxt()); // ldtr x0, [x1, #8]
        assert_eq!(c.x[0], 0xffee_ddcc_bbaa_9988);
        assert_eq!(c.x[1], 0x2000);
    }

    #[test]
    fn imm9_unallocated() {
        let mut c = mk();
        assert_eq!(run(&mut c, 0xF8808420), A64Outcome::Undefined); // size=11 opc=10 post-index (no PRFM form)
        assert_eq!(run(&mut c, 0xB8C08420), A64Outcome::Undefined); // size=10 opc=11 post-index
    }

    // ---------------- loads/stores: register offset ----------------

    #[test]
    fn ldr_reg_lsl() {
        let mut c = mk();
        map(&mut c, 0x2000, &DATA);
        c.x[1] = 0x2000;
        c.x[2] = 8;
        assert_eq!(class_of(0xF8626820), Some("ldr_reg"));
        assert_eq!(run(&mut c, 0xF8626820), nxt()); // ldr x0, [x1, x2]
        assert_eq!(c.x[0], 0xffee_ddcc_bbaa_9988);
        c.x[2] = 1;
        assert_eq!(run(&mut c, 0xF8627820), nxt()); // ldr x0, [x1, x2, lsl #3]
        assert_eq!(c.x[0], 0xffee_ddcc_bbaa_9988);
    }

    #[test]
    fn ldr_reg_uxtw_sxtw() {
        let mut c = mk();
        map(&mut c, 0x2000, &DATA);
        c.x[1] = 0x2000;
        c.x[2] = 0xffff_ffff_0000_0001; // upper half ignored by UXTW
        assert_eq!(run(&mut c, 0xB8625820), nxt()); // ldr w0, [x1, w2, uxtw #2]
        assert_eq!(c.x[0], 0x7766_5544);
        c.x[1] = 0x2008;
        c.x[2] = 0xffff_fff8; // -8 as a W register
        assert_eq!(run(&mut c, 0xF862C820), nxt()); // ldr x0, [x1, w2, sxtw]
        assert_eq!(c.x[0], 0x7766_5544_3322_1100);
        c.x[1] = 0x2010;
        c.x[2] = 0xffff_ffff; // -1
        assert_eq!(run(&mut c, 0xF862D820), nxt()); // ldr x0, [x1, w2, sxtw #3]
        assert_eq!(c.x[0], 0xffee_ddcc_bbaa_9988);
    }

    #[test]
    fn str_reg_sxtx_and_byte_half() {
        let mut c = mk();
        map(&mut c, 0x2000, &DATA);
        c.x[1] = 0x2010;
        c.x[2] = (-16i64) as u64;
        c.x[0] = 0x0102_0304_0506_0708;
        assert_eq!(class_of(0xF822E820), Some("str_reg"));
        assert_eq!(run(&mut c, 0xF822E820), nxt()); // str x0, [x1, x2, sxtx]
        assert_eq!(rd(&c, 0x2000, 8), vec![8, 7, 6, 5, 4, 3, 2, 1]);
        c.x[1] = 0x2000;
        c.x[2] = 9;
        assert_eq!(class_of(0x38626820), Some("ldrb_reg"));
        assert_eq!(run(&mut c, 0x38626820), nxt()); // ldrb w0, [x1, x2]
        assert_eq!(c.x[0], 0x99);
        assert_eq!(run(&mut c, 0x38627820), nxt()); // ldrb w0, [x1, x2, lsl #0]
        assert_eq!(c.x[0], 0x99);
        c.x[2] = 5;
        assert_eq!(run(&mut c, 0x78627820), nxt()); // ldrh w0, [x1, x2, lsl #1]
        assert_eq!(c.x[0], 0xbbaa);
    }

    #[test]
    fn ldr_reg_sp_base_zr_index_and_undefined_options() {
        let mut c = mk();
        map(&mut c, 0x2000, &DATA);
        c.sp = 0x2008;
        assert_eq!(run(&mut c, 0xF87F6BE0), nxt()); // ldr x0, [sp, xzr]
        assert_eq!(c.x[0], 0xffee_ddcc_bbaa_9988);
        assert_eq!(run(&mut c, 0xF8620820), A64Outcome::Undefined); // option = 000
        assert_eq!(run(&mut c, 0xF8622820), A64Outcome::Undefined); // option = 001
        assert_eq!(run(&mut c, 0xF8628820), A64Outcome::Undefined); // option = 100
        assert_eq!(run(&mut c, 0xF8220020), A64Outcome::Unmodelled); // ldadd x2, x0, [x1]
    }

    // ---------------- literal ----------------

    #[test]
    fn ldr_literal_forms() {
        let mut c = mk();
        map(&mut c, PC - 8, &DATA); // PC-8 .. PC+8
        map(&mut c, PC + 8, &DATA); // PC+8 .. PC+24
        assert_eq!(class_of(0x58000040), Some("ldr_lit"));
        assert_eq!(run(&mut c, 0x58000040), nxt()); // ldr x0, . + 8
        assert_eq!(c.x[0], 0x7766_5544_3322_1100);
        assert_eq!(run(&mut c, 0x18FFFFE0), nxt()); // ldr w0, . - 4
        assert_eq!(c.x[0], 0x7766_5544);
        assert_eq!(class_of(0x98000020), Some("ldrsw_lit"));
        assert_eq!(run(&mut c, 0x98000020), nxt()); // ldrsw x0, . + 4
        assert_eq!(c.x[0], 0xffff_ffff_ffee_ddcc);
        // literal with the maximum negative offset faults at pc - 1MiB
        assert_eq!(run(&mut c, 0x58800000), A64Outcome::MemFault(PC.wrapping_sub(0x100000))); // ldr x0, . - 0x100000
    }

    #[test]
    fn prfm_forms_are_nops_even_when_unmapped() {
        let mut c = mk();
        c.x[1] = 0xdead_0000;
        c.x[2] = 0x10;
        let before = c.clone();
        assert_eq!(class_of(0xF9800020), Some("prfm_uoff"));
        assert_eq!(run(&mut c, 0xF9800020), nxt()); // prfm pldl1keep, [x1]
        assert_eq!(class_of(0xD8000000), Some("prfm_lit"));
        assert_eq!(run(&mut c, 0xD8000000), nxt()); // prfm pldl1keep, .
        assert_eq!(class_of(0xF8A26820), Some("prfm_reg"));
        assert_eq!(run(&mut c, 0xF8A26820), nxt()); // prfm pldl1keep, [x1, x2]
        assert_eq!(class_of(0xF89F8020), Some("prfm_unscaled"));
        assert_eq!(run(&mut c, 0xF89F8020), nxt()); // prfum pldl1keep, [x1, #-8]
        assert_eq!(c, before);
    }

    // ---------------- memory faults ----------------

    #[test]
    fn mem_fault_no_partial_write_no_writeback() {
        let mut c = mk();
        map(&mut c, 0x2000, &[0xee; 4]); // only 4 of 8 bytes mapped
        c.x[1] = 0x1ff8;
        c.x[0] = 0x0102_0304_0506_0708;
        let before = c.clone();
        assert_eq!(run(&mut c, 0xF8008C20), A64Outcome::MemFault(0x2004)); // str x0, [x1, #8]!
        assert_eq!(c, before);
        // load straddling the start of the mapping: first unmapped byte is the access address
        c.x[1] = 0x1ffe;
        let before = c.clone();
        assert_eq!(run(&mut c, 0xB8404420), A64Outcome::MemFault(0x1ffe)); // ldr w0, [x1], #4
        assert_eq!(c, before);
    }

    // ---------------- pairs ----------------

    #[test]
    fn stp_pre_index_frame_push_both_endiannesses() {
        for be in [false, true] {
            let mut c = mk();
            c.big_endian = be;
            map(&mut c, 0x3000, &[0xee; 32]);
            c.sp = 0x3010;
            c.x[29] = 0x0102_0304_0506_0708;
            c.x[30] = 0x1112_1314_1516_1718;
            assert_eq!(class_of(0xA9BF7BFD), Some("stp_pre"));
            assert_eq!(run(&mut c, 0xA9BF7BFD), nxt()); // stp x29, x30, [sp, #-16]!
            assert_eq!(c.sp, 0x3000);
            let expect: Vec<u8> = if be {
                vec![1, 2, 3, 4, 5, 6, 7, 8, 0x11, 0x12, 0x13, 0x14, 0x15, 0x16, 0x17, 0x18]
            } else {
                vec![8, 7, 6, 5, 4, 3, 2, 1, 0x18, 0x17, 0x16, 0x15, 0x14, 0x13, 0x12, 0x11]
            };
            assert_eq!(rd(&c, 0x3000, 16), expect); // Rt at the lower address in both cases
            assert_eq!(rd(&c, 0x3010, 16), vec![0xee; 16]);
        }
    }

    #[test]
    fn ldp_post_index_frame_pop_both_endiannesses() {
        let mut c = mk();
        map(&mut c, 0x3000, &DATA);
        c.sp = 0x3000;
        assert_eq!(class_of(0xA8C17BFD), Some("ldp_post"));
        assert_eq!(run(&mut c, 0xA8C17BFD), nxt()); // ldp x29, x30, [sp], #16
        assert_eq!(c.x[29], 0x7766_5544_3322_1100);
        assert_eq!(c.x[30], 0xffee_ddcc_bbaa_9988);
        assert_eq!(c.sp, 0x3010);
        let mut c = mk();
        c.big_endian = true;
        map(&mut c, 0x3000, &DATA);
        c.sp = 0x3000;
        assert_eq!(run(&mut c, 0xA8C17BFD), nxt()); // ldp x29, x30, [sp], #16
        assert_eq!(c.x[29], 0x0011_2233_4455_6677);
        assert_eq!(c.x[30], 0x8899_aabb_ccdd_eeff);
    }

    #[test]
    fn stp_ldp_signed_offset() {
        let mut c = mk();
        map(&mut c, 0x2000, &[0xee; 32]);
        c.x[2] = 0x2000;
        c.x[0] = 0x0102_0304_0506_0708;
        c.x[1] = 0x1112_1314_1516_1718;
        assert_eq!(class_of(0xA9010440), Some("stp_off"));
        assert_eq!(run(&mut c, 0xA9010440), nxt()); // stp x0, x1, [x2, #16]
        assert_eq!(rd(&c, 0x2000, 16), vec![0xee; 16]);
        assert_eq!(
            rd(&c, 0x2010, 16),
            vec![8, 7, 6, 5, 4, 3, 2, 1, 0x18, 0x17, 0x16, 0x15, 0x14, 0x13, 0x12, 0x11]
        );
        assert_eq!(c.x[2], 0x2000);
        map(&mut c, 0x2000, &DATA);
        c.x[2] = 0x2008;
        assert_eq!(class_of(0xA97F8440), Some("ldp_off"));
        assert_eq!(run(&mut c, 0xA97F8440), nxt()); // ldp x0, x1, [x2, #-8]
        assert_eq!(c.x[0], 0x7766_5544_3322_1100);
        assert_eq!(c.x[1], 0xffee_ddcc_bbaa_9988);
    }

    #[test]
    fn ldp_pre_index() {
        let mut c = mk();
        map(&mut c, 0x2000, &[0u8; 16]);
        map(&mut c, 0x2010, &DATA);
        c.x[2] = 0x2000;
        assert_eq!(class_of(0xA9C10440), Some("ldp_pre"));
        assert_eq!(run(&mut c, 0xA9C10440), nxt()); // ldp x0, x1, [x2, #16]!
        assert_eq!(c.x[0], 0x7766_5544_3322_1100);
        assert_eq!(c.x[1], 0xffee_ddcc_bbaa_9988);
        assert_eq!(c.x[2], 0x2010);
    }

    #[test]
    fn ldp_stp_32bit() {
        let mut c = mk();
        map(&mut c, 0x2000, &DATA);
        c.x[2] = 0x2000;
        c.x[0] = u64::MAX;
        c.x[1] = u64::MAX;
        assert_eq!(run(&mut c, 0x29400440), nxt()); // ldp w0, w1, [x2]
        assert_eq!(c.x[0], 0x3322_1100);
        assert_eq!(c.x[1], 0x7766_5544);
        c.x[0] = 0xaaaa_aaaa_0102_0304;
        c.x[1] = 0x0506_0708;
        assert_eq!(run(&mut c, 0x29008440), nxt()); // stp w0, w1, [x2, #4]
        assert_eq!(rd(&c, 0x2000, 16), vec![0, 0x11, 0x22, 0x33, 4, 3, 2, 1, 8, 7, 6, 5, 0xcc, 0xdd, 0xee, 0xff]);
        c.big_endian = true;
        assert_eq!(run(&mut c, 0x29008440), nxt()); // stp w0, w1, [x2, #4]
        assert_eq!(rd(&c, 0x2004, 8), vec![1, 2, 3, 4, 5, 6, 7, 8]);
    }

    #[test]
    fn ldpsw_forms() {
        let mut c = mk();
        map(&mut c, 0x2000, &[0x00, 0x00, 0x00, 0x80, 0xff, 0xff, 0xff, 0x7f]);
        c.x[2] = 0x2000;
        assert_eq!(class_of(0x69400440), Some("ldpsw_off"));
        assert_eq!(run(&mut c, 0x69400440), nxt()); // ldpsw x0, x1, [x2]
        assert_eq!(c.x[0], 0xffff_ffff_8000_0000);
        assert_eq!(c.x[1], 0x0000_0000_7fff_ffff);
        c.x[0] = 0;
        c.x[1] = 0;
        assert_eq!(class_of(0x68C10440), Some("ldpsw_post"));
        assert_eq!(run(&mut c, 0x68C10440), nxt()); // ldpsw x0, x1, [x2], #8
        assert_eq!(c.x[0], 0xffff_ffff_8000_0000);
        assert_eq!(c.x[1], 0x7fff_ffff);
        assert_eq!(c.x[2], 0x2008);
    }

    #[test]
    fn ldnp_stnp() {
        let mut c = mk();
        map(&mut c, 0x2000, &DATA);
        c.x[2] = 0x2000;
        assert_eq!(class_of(0xA8400440), Some("ldnp"));
        assert_eq!(run(&mut c, 0xA8400440), nxt()); // ldnp x0, x1, [x2]
        assert_eq!(c.x[0], 0x7766_5544_3322_1100);
        assert_eq!(c.x[1], 0xffee_ddcc_bbaa_9988);
        c.x[0] = 0x0403_0201;
        c.x[1] = 0x0807_0605;
        assert_eq!(class_of(0x28000440), Some("stnp"));
        assert_eq!(run(&mut c, 0x28000440), nxt()); // stnp w0, w1, [x2]
        assert_eq!(rd(&c, 0x2000, 9), vec![1, 2, 3, 4, 5, 6, 7, 8, 0x88]);
        assert_eq!(class_of(0xA8000440), Some("stnp")); // stnp x0, x1, [x2]
    }

    #[test]
    fn pair_unpredictable_and_undefined() {
        let mut c = mk();
        map(&mut c, 0x2000, &[0xee; 32]);
        c.x[2] = 0x2000;
        let before = c.clone();
        assert!(matches!(run(&mut c, 0xA9400040), A64Outcome::Unpredictable(_))); // ldp x0, x0, [x2]
        assert!(matches!(run(&mut c, 0xA8C10442), A64Outcome::Unpredictable(_))); // ldp x2, x1, [x2], #16
        assert!(matches!(run(&mut c, 0xA9810840), A64Outcome::Unpredictable(_))); // stp x0, x2, [x2, #16]!
        assert!(matches!(run(&mut c, 0xA8400040), A64Outcome::Unpredictable(_))); // ldnp x0, x0, [x2]
        assert_eq!(c, before);
        assert_eq!(run(&mut c, 0xA9000040), nxt()); // stp x0, x0, [x2] is fine
        assert_eq!(run(&mut c, 0xE9400440), A64Outcome::Undefined); // opc == 11
        assert_eq!(run(&mut c, 0x68400440), A64Outcome::Undefined); // no-allocate pair, opc == 01
        assert_eq!(run(&mut c, 0x69000440), A64Outcome::Unmodelled); // stgp x0, x1, [x2]
    }

    #[test]
    fn stp_zr_pair_with_sp_writeback_and_pair_fault() {
        let mut c = mk();
        map(&mut c, 0x3000, &[0xee; 16]);
        c.sp = 0x3010;
        assert_eq!(run(&mut c, 0xA9BF7FFF), nxt()); // stp xzr, xzr, [sp, #-16]!
        assert_eq!(c.sp, 0x3000);
        assert_eq!(rd(&c, 0x3000, 16), vec![0; 16]);
        // second element unmapped: fault, nothing written, no writeback
        let mut c = mk();
        map(&mut c, 0x3000, &[0xee; 8]);
        c.sp = 0x3010;
        c.x[29] = 1;
        let before = c.clone();
        assert_eq!(run(&mut c, 0xA9BF7BFD), A64Outcome::MemFault(0x3008)); // stp x29, x30, [sp, #-16]!
        assert_eq!(c, before);
    }

    // ---------------- load-acquire / store-release ----------------

    #[test]
    fn ldar_stlr_family() {
        let mut c = mk();
        map(&mut c, 0x2000, &DATA);
        c.x[1] = 0x2000;
        assert_eq!(class_of(0xC8DFFC20), Some("ldar"));
        assert_eq!(run(&mut c, 0xC8DFFC20), nxt()); // ldar x0, [x1]
        assert_eq!(c.x[0], 0x7766_5544_3322_1100);
        assert_eq!(class_of(0x88DFFC20), Some("ldar"));
        assert_eq!(run(&mut c, 0x88DFFC20), nxt()); // ldar w0, [x1]
        assert_eq!(c.x[0], 0x3322_1100);
        c.x[1] = 0x2009;
        c.x[0] = u64::MAX;
        assert_eq!(class_of(0x08DFFC20), Some("ldarb"));
        assert_eq!(run(&mut c, 0x08DFFC20), nxt()); // ldarb w0, [x1]
        assert_eq!(c.x[0], 0x99);
        assert_eq!(class_of(0x48DFFC20), Some("ldarh"));
        assert_eq!(run(&mut c, 0x48DFFC20), nxt()); // ldarh w0, [x1]
        assert_eq!(c.x[0], 0xaa99);
        c.x[1] = 0x2000;
        c.x[0] = 0x0102_0304_0506_0708;
        assert_eq!(class_of(0xC89FFC20), Some("stlr"));
        assert_eq!(run(&mut c, 0xC89FFC20), nxt()); // stlr x0, [x1]
        assert_eq!(rd(&c, 0x2000, 8), vec![8, 7, 6, 5, 4, 3, 2, 1]);
        c.x[0] = 0xa1b2;
        c.x[1] = 0x2008;
        assert_eq!(class_of(0x089FFC20), Some("stlrb"));
        assert_eq!(run(&mut c, 0x089FFC20), nxt()); // stlrb w0, [x1]
        assert_eq!(rd(&c, 0x2008, 2), vec![0xb2, 0x99]);
        assert_eq!(class_of(0x489FFC20), Some("stlrh"));
        assert_eq!(run(&mut c, 0x489FFC20), nxt()); // stlrh w0, [x1]
        assert_eq!(rd(&c, 0x2008, 3), vec![0xb2, 0xa1, 0xaa]);
        c.sp = 0x200c;
        assert_eq!(run(&mut c, 0x889FFFE0), nxt()); // stlr w0, [sp]
        assert_eq!(rd(&c, 0x200c, 4), vec![0xb2, 0xa1, 0, 0]);
    }

    #[test]
    fn ldlar_stllr_and_exclusives() {
        let mut c = mk();
        map(&mut c, 0x2000, &DATA);
        c.x[1] = 0x2000;
        assert_eq!(class_of(0xC8DF7C20), Some("ldlar"));
        assert_eq!(run(&mut c, 0xC8DF7C20), nxt()); // ldlar x0, [x1]
        assert_eq!(c.x[0], 0x7766_5544_3322_1100);
        assert_eq!(class_of(0x08DF7C20), Some("ldlarb"));
        c.x[0] = 0x55;
        assert_eq!(class_of(0xC89F7C20), Some("stllr"));
        assert_eq!(run(&mut c, 0xC89F7C20), nxt()); // stllr x0, [x1]
        assert_eq!(rd(&c, 0x2000, 8), vec![0x55, 0, 0, 0, 0, 0, 0, 0]);
        assert_eq!(run(&mut c, 0xC85F7C20), A64Outcome::Unmodelled); // ldxr x0, [x1]
        assert_eq!(run(&mut c, 0xC8027C20), A64Outcome::Unmodelled); // stxr w2, x0, [x1]
        assert_eq!(run(&mut c, 0xC85FFC20), A64Outcome::Unmodelled); // ldaxr x0, [x1]
        assert_eq!(run(&mut c, 0xC8E0FC20), A64Outcome::Unmodelled); // casal x0, x0, [x1]
        assert!(matches!(run(&mut c, 0xC8C0FC20), A64Outcome::Unpredictable(_))); // ldar with Rs != 0b11111
    }

    #[test]
    fn ldapur_stlur_family() {
        let mut c = mk();
        map(&mut c, 0x2000, &DATA);
        c.x[1] = 0x2008;
        assert_eq!(class_of(0xD95F8020), Some("ldapur"));
        assert_eq!(run(&mut c, 0xD95F8020), nxt()); // ldapur x0, [x1, #-8]
        assert_eq!(c.x[0], 0x7766_5544_3322_1100);
        assert_eq!(class_of(0x19C00020), Some("ldapursb"));
        assert_eq!(run(&mut c, 0x19C00020), nxt()); // ldapursb w0, [x1]
        assert_eq!(c.x[0], 0xffff_ff88);
        assert_eq!(class_of(0x99800020), Some("ldapursw"));
        assert_eq!(run(&mut c, 0x99800020), nxt()); // ldapursw x0, [x1]
        assert_eq!(c.x[0], 0xffff_ffff_bbaa_9988);
        c.x[0] = 0x0a0b_0c0d;
        assert_eq!(class_of(0x99004020), Some("stlur"));
        assert_eq!(run(&mut c, 0x99004020), nxt()); // stlur w0, [x1, #4]
        assert_eq!(rd(&c, 0x200c, 4), vec![0x0d, 0x0c, 0x0b, 0x0a]);
        assert_eq!(run(&mut c, 0xD9800020), A64Outcome::Undefined); // size=11 opc=10
    }

    // ---------------- SIMD&FP scalar loads/stores ----------------

    #[test]
    fn ldr_q_both_endiannesses() {
        let mut c = mk();
        map(&mut c, 0x2000, &DATA);
        c.x[1] = 0x2000;
        assert_eq!(class_of(0x3DC00020), Some("ldr_simd_uoff"));
        assert_eq!(run(&mut c, 0x3DC00020), nxt()); // ldr q0, [x1]
        assert_eq!(c.vreg[0], 0xffee_ddcc_bbaa_9988_7766_5544_3322_1100);
        c.big_endian = true;
        assert_eq!(run(&mut c, 0x3DC00020), nxt()); // ldr q0, [x1]
        assert_eq!(c.vreg[0], 0x0011_2233_4455_6677_8899_aabb_ccdd_eeff);
    }

    #[test]
    fn ldr_bhsd_zero_extend_into_vreg() {
        let mut c = mk();
        map(&mut c, 0x2000, &DATA);
        c.x[1] = 0x2000;
        c.vreg[0] = u128::MAX;
        assert_eq!(run(&mut c, 0x3D401420), nxt()); // ldr b0, [x1, #5]
        assert_eq!(c.vreg[0], 0x55);
        c.vreg[0] = u128::MAX;
        assert_eq!(run(&mut c, 0x7D400420), nxt()); // ldr h0, [x1, #2]
        assert_eq!(c.vreg[0], 0x3322);
        c.vreg[0] = u128::MAX;
        assert_eq!(run(&mut c, 0xBD400420), nxt()); // ldr s0, [x1, #4]
        assert_eq!(c.vreg[0], 0x7766_5544);
        c.vreg[0] = u128::MAX;
        assert_eq!(run(&mut c, 0xFD400420), nxt()); // ldr d0, [x1, #8]
        assert_eq!(c.vreg[0], 0xffee_ddcc_bbaa_9988);
        assert_eq!(c.x[0], 0); // GPR file untouched
    }

    #[test]
    fn str_simd_forms() {
        let mut c = mk();
        map(&mut c, 0x2000, &[0xee; 32]);
        c.x[1] = 0x2000;
        c.vreg[0] = 0x1111_1111_1111_1111_0102_0304_0506_0708;
        assert_eq!(class_of(0xFD000020), Some("str_simd_uoff"));
        assert_eq!(run(&mut c, 0xFD000020), nxt()); // str d0, [x1]
        assert_eq!(rd(&c, 0x2000, 9), vec![8, 7, 6, 5, 4, 3, 2, 1, 0xee]);
        assert_eq!(run(&mut c, 0x3D800420), nxt()); // str q0, [x1, #16]
        assert_eq!(
            rd(&c, 0x2010, 16),
            vec![8, 7, 6, 5, 4, 3, 2, 1, 0x11, 0x11, 0x11, 0x11, 0x11, 0x11, 0x11, 0x11]
        );
        c.big_endian = true;
        assert_eq!(run(&mut c, 0x3D800420), nxt()); // str q0, [x1, #16]
        assert_eq!(
            rd(&c, 0x2010, 16),
            vec![0x11, 0x11, 0x11, 0x11, 0x11, 0x11, 0x11, 0x11, 1, 2, 3, 4, 5, 6, 7, 8]
        );
    }

    #[test]
    fn simd_writeback_unscaled_and_reg_offset() {
        let mut c = mk();
        map(&mut c, 0x3000, &[0xee; 32]);
        c.sp = 0x3010;
        c.vreg[0] = 0x0f0e_0d0c_0b0a_0908_0706_0504_0302_0100;
        assert_eq!(class_of(0x3C9F0FE0), Some("str_simd_pre"));
        assert_eq!(run(&mut c, 0x3C9F0FE0), nxt()); // str q0, [sp, #-16]!
        assert_eq!(c.sp, 0x3000);
        assert_eq!(rd(&c, 0x3000, 16), (0u8..16).collect::<Vec<u8>>());
        c.vreg[0] = 0;
        assert_eq!(class_of(0x3CC107E0), Some("ldr_simd_post"));
        assert_eq!(run(&mut c, 0x3CC107E0), nxt()); // ldr q0, [sp], #16
        assert_eq!(c.vreg[0], 0x0f0e_0d0c_0b0a_0908_0706_0504_0302_0100);
        assert_eq!(c.sp, 0x3010);

        map(&mut c, 0x2000, &DATA);
        map(&mut c, 0x2010, &DATA);
        c.x[1] = 0x2008;
        assert_eq!(class_of(0xBC5FC020), Some("ldr_simd_unscaled"));
        assert_eq!(run(&mut c, 0xBC5FC020), nxt()); // ldur s0, [x1, #-4]
        assert_eq!(c.vreg[0], 0x7766_5544);
        c.x[1] = 0x2000;
        c.x[2] = 1;
        assert_eq!(class_of(0xFC627820), Some("ldr_simd_reg"));
        assert_eq!(run(&mut c, 0xFC627820), nxt()); // ldr d0, [x1, x2, lsl #3]
        assert_eq!(c.vreg[0], 0xffee_ddcc_bbaa_9988);
        assert_eq!(run(&mut c, 0x3CE27820), nxt()); // ldr q0, [x1, x2, lsl #4]
        assert_eq!(c.vreg[0], 0xffee_ddcc_bbaa_9988_7766_5544_3322_1100);
        // vector Rt number equal to base register number is NOT unpredictable
        c.x[1] = 0x2000;
        assert_eq!(run(&mut c, 0xFC408C21), nxt()); // ldr d1, [x1, #8]!
        assert_eq!(c.vreg[1], 0xffee_ddcc_bbaa_9988);
        assert_eq!(c.x[1], 0x2008);
        assert_eq!(run(&mut c, 0x7DC00020), A64Outcome::Undefined); // opc<1>:size = 101 > 4
    }

    #[test]
    fn simd_literal() {
        let mut c = mk();
        map(&mut c, PC + 8, &DATA);
        assert_eq!(class_of(0x1C000040), Some("ldr_simd_lit"));
        assert_eq!(run(&mut c, 0x1C000040), nxt()); // ldr s0, . + 8
        assert_eq!(c.vreg[0], 0x3322_1100);
        assert_eq!(run(&mut c, 0x5C000041), nxt()); // ldr d1, . + 8
        assert_eq!(c.vreg[1], 0x7766_5544_3322_1100);
        assert_eq!(run(&mut c, 0x9C000042), nxt()); // ldr q2, . + 8
        assert_eq!(c.vreg[2], 0xffee_ddcc_bbaa_9988_7766_5544_3322_1100);
        assert_eq!(run(&mut c, 0xDC000040), A64Outcome::Undefined); // opc == 11, V == 1
    }

    #[test]
    fn simd_pairs() {
        let mut c = mk();
        map(&mut c, 0x2000, &DATA);
        map(&mut c, 0x2010, &[0xee; 48]);
        c.x[0] = 0x2000;
        c.x[2] = 0x2000;
        assert_eq!(class_of(0x2CC10440), Some("ldp_simd"));
        assert_eq!(run(&mut c, 0x2CC10440), nxt()); // ldp s0, s1, [x2], #8
        assert_eq!(c.vreg[0], 0x3322_1100);
        assert_eq!(c.vreg[1], 0x7766_5544);
        assert_eq!(c.x[2], 0x2008);
        assert_eq!(class_of(0x6C400440), Some("ldnp_simd"));
        assert_eq!(run(&mut c, 0x6C400440), nxt()); // ldnp d0, d1, [x2]
        assert_eq!(c.vreg[0], 0xffee_ddcc_bbaa_9988);
        assert_eq!(c.vreg[1], 0xeeee_eeee_eeee_eeee);
        map(&mut c, 0x2010, &DATA);
        assert_eq!(run(&mut c, 0xAD400400), nxt()); // ldp q0, q1, [x0]
        assert_eq!(c.vreg[0], 0xffee_ddcc_bbaa_9988_7766_5544_3322_1100);
        assert_eq!(c.vreg[1], 0xffee_ddcc_bbaa_9988_7766_5544_3322_1100);

        c.vreg[0] = 0xaaaa_aaaa_aaaa_aaaa_0102_0304_0506_0708;
        c.vreg[1] = 0xbbbb_bbbb_bbbb_bbbb_1112_1314_1516_1718;
        c.x[2] = 0x2030;
        assert_eq!(class_of(0x6DBF0440), Some("stp_simd"));
        assert_eq!(run(&mut c, 0x6DBF0440), nxt()); // stp d0, d1, [x2, #-16]!
        assert_eq!(c.x[2], 0x2020);
        assert_eq!(
            rd(&c, 0x2020, 16),
            vec![8, 7, 6, 5, 4, 3, 2, 1, 0x18, 0x17, 0x16, 0x15, 0x14, 0x13, 0x12, 0x11]
        );
        c.x[2] = 0x2000;
        assert_eq!(class_of(0xAC010440), Some("stnp_simd"));
        assert_eq!(run(&mut c, 0xAC010440), nxt()); // stnp q0, q1, [x2, #32]
        assert_eq!(rd(&c, 0x2020, 4), vec![8, 7, 6, 5]);
        assert_eq!(rd(&c, 0x2028, 2), vec![0xaa, 0xaa]);
        assert_eq!(rd(&c, 0x2030, 2), vec![0x18, 0x17]);
        assert!(matches!(run(&mut c, 0xAD400040), A64Outcome::Unpredictable(_))); // ldp q0, q0, [x2]
        assert_eq!(run(&mut c, 0xED400440), A64Outcome::Undefined); // opc == 11
    }

    // ---------------- branches ----------------

    #[test]
    fn b_and_bl() {
        let mut c = mk();
        assert_eq!(class_of(0x14000002), Some("b"));
        assert_eq!(run(&mut c, 0x14000002), to(PC + 8)); // b . + 8
        assert_eq!(run(&mut c, 0x17FFFFFF), to(PC - 4)); // b . - 4
        assert_eq!(c.x[30], 0);
        assert_eq!(step(&mut c, 0x1000_0000, 0x16000000), to(0x1000_0000 - 0x800_0000)); // b . - 128MiB
        assert_eq!(class_of(0x94000040), Some("bl"));
        assert_eq!(run(&mut c, 0x94000040), to(PC + 0x100)); // bl . + 0x100
        assert_eq!(c.x[30], PC + 4);
    }

    #[test]
    fn br_blr_ret() {
        let mut c = mk();
        c.x[1] = 0x4000;
        c.x[5] = 0x5000;
        c.x[30] = 0x6000;
        c.sp = 0x7000;
        assert_eq!(class_of(0xD61F0020), Some("br"));
        assert_eq!(run(&mut c, 0xD61F0020), to(0x4000)); // br x1
        assert_eq!(c.x[30], 0x6000);
        assert_eq!(class_of(0xD65F03C0), Some("ret"));
        assert_eq!(run(&mut c, 0xD65F03C0), to(0x6000)); // ret
        assert_eq!(run(&mut c, 0xD65F00A0), to(0x5000)); // ret x5
        assert_eq!(c.x[30], 0x6000);
        assert_eq!(run(&mut c, 0xD61F03E0), to(0)); // br xzr (Rn = 31 is ZR, not SP)
        assert_eq!(class_of(0xD63F0020), Some("blr"));
        assert_eq!(run(&mut c, 0xD63F0020), to(0x4000)); // blr x1
        assert_eq!(c.x[30], PC + 4);
    }

    #[test]
    fn blr_x30_reads_target_before_link_write() {
        let mut c = mk();
        c.x[30] = 0x6000;
        assert_eq!(run(&mut c, 0xD63F03C0), to(0x6000)); // blr x30
        assert_eq!(c.x[30], PC + 4);
    }

    #[test]
    fn branch_register_other_encodings() {
        let mut c = mk();
        assert_eq!(run(&mut c, 0xD61F083F), A64Outcome::Unmodelled); // braaz x1
        assert_eq!(run(&mut c, 0xD69F03E0), A64Outcome::Unmodelled); // eret
        assert_eq!(run(&mut c, 0xD61F0021), A64Outcome::Undefined); // br with op4 != 0
    }

    #[test]
    fn b_cond_truth_table() {
        // bit i of the mask: condition holds when NZCV == i (N = bit 3 ... V = bit 0)
        let masks: [u16; 16] = [
            0xF0F0, // EQ: Z
            0x0F0F, // NE
            0xCCCC, // CS: C
            0x3333, // CC
            0xFF00, // MI: N
            0x00FF, // PL
            0xAAAA, // VS: V
            0x5555, // VC
            0x0C0C, // HI: C && !Z
            0xF3F3, // LS
            0xAA55, // GE: N == V
            0x55AA, // LT
            0x0A05, // GT: N == V && !Z
            0xF5FA, // LE
            0xFFFF, // AL
            0xFFFF, // NV (also always)
        ];
        for cond in 0..16u32 {
            let word = 0x54000040 | cond; // b.<cond> . + 8
            assert_eq!(class_of(word), Some("b_cond"));
            for nzcv in 0..16u32 {
                let mut c = mk();
                c.n = nzcv & 8 != 0;
                c.z = nzcv & 4 != 0;
                c.c = nzcv & 2 != 0;
                c.v = nzcv & 1 != 0;
                let taken = (masks[cond as usize] >> nzcv) & 1 == 1;
                let expect = if taken { to(PC + 8) } else { nxt() };
                assert_eq!(run(&mut c, word), expect, "cond {cond} nzcv {nzcv:04b}");
            }
        }
    }

    #[test]
    fn b_cond_negative_offset_and_neighbours() {
        let mut c = mk();
        assert_eq!(run(&mut c, 0x54FFFFC1), to(PC - 8)); // b.ne . - 8 (Z clear)
        c.z = true;
        assert_eq!(run(&mut c, 0x54FFFFC1), nxt());
        assert_eq!(run(&mut c, 0x54000050), A64Outcome::Unmodelled); // bc.eq . + 8 (FEAT_HBC)
        assert_eq!(run(&mut c, 0x55000040), A64Outcome::Undefined); // o1 == 1
    }

    #[test]
    fn cbz_cbnz() {
        let mut c = mk();
        c.x[0] = 0x1_0000_0000; // W0 == 0, X0 != 0
        assert_eq!(class_of(0xB4000040), Some("cbz"));
        assert_eq!(run(&mut c, 0xB4000040), nxt()); // cbz x0, . + 8
        assert_eq!(run(&mut c, 0x34000040), to(PC + 8)); // cbz w0, . + 8
        assert_eq!(class_of(0x35000040), Some("cbnz"));
        assert_eq!(run(&mut c, 0x35000040), nxt()); // cbnz w0, . + 8
        assert_eq!(run(&mut c, 0xB5000040), to(PC + 8)); // cbnz x0, . + 8
        c.sp = 5;
        assert_eq!(run(&mut c, 0xB400005F), to(PC + 8)); // cbz xzr, . + 8
        assert_eq!(run(&mut c, 0xB5FFFFFF), nxt()); // cbnz xzr, . - 4
        c.x[0] = 1;
        assert_eq!(run(&mut c, 0xB5FFFFE0), to(PC - 4)); // cbnz x0, . - 4
    }

    #[test]
    fn tbz_tbnz() {
        let mut c = mk();
        c.x[0] = 0x8000_0000_0000_0000;
        assert_eq!(class_of(0xB7F80040), Some("tbnz"));
        assert_eq!(run(&mut c, 0xB7F80040), to(PC + 8)); // tbnz x0, #63, . + 8
        assert_eq!(class_of(0x36F80040), Some("tbz"));
        assert_eq!(run(&mut c, 0x36F80040), to(PC + 8)); // tbz w0, #31, . + 8 (bit 31 clear)
        c.x[0] = 0x8000_0000;
        assert_eq!(run(&mut c, 0x36F80040), nxt()); // tbz w0, #31, . + 8 (bit 31 set)
        assert_eq!(run(&mut c, 0xB7F80040), nxt()); // tbnz x0, #63
        assert_eq!(run(&mut c, 0x36000040), to(PC + 8)); // tbz w0, #0, . + 8
        assert_eq!(run(&mut c, 0xB607FFE0), to(PC - 4)); // tbz x0, #32, . - 4
        c.x[0] = 0x1_0000_0000;
        assert_eq!(run(&mut c, 0xB607FFE0), nxt()); // tbz x0, #32, . - 4
        c.x[3] = 0x20;
        assert_eq!(run(&mut c, 0x37280083), to(PC + 0x10)); // tbnz w3, #5, . + 0x10
        c.x[3] = !0x20;
        assert_eq!(run(&mut c, 0x37280083), nxt());
        assert_eq!(run(&mut c, 0x3600005F), to(PC + 8)); // tbz wzr, #0, . + 8
    }

    // ---------------- hints / unmodelled ----------------

    #[test]
    fn nop_and_hint_space() {
        let mut c = mk();
        c.x[30] = 77;
        let before = c.clone();
        assert_eq!(class_of(0xD503201F), Some("nop"));
        assert_eq!(run(&mut c, 0xD503201F), nxt()); // nop
        for w in [
            0xD503203Fu32, // yield
            0xD503207F,    // wfi
            0xD503245F,    // bti c
            0xD503233F,    // paciasp
            0xD5032FFF,    // hint #127
        ] {
            assert_eq!(class_of(w), Some("hint"));
            assert_eq!(run(&mut c, w), nxt());
        }
        assert_eq!(c, before);
    }

    #[test]
    fn unmodelled_words() {
        let mut c = mk();
        let before = c.clone();
        for w in [
            0x00000000u32, // udf #0
            0x10000000,    // adr x0, .
            0x90000000,    // adrp x0, .
            0xD37FF820,    // lsl x0, x1, #1 (ubfm)
            0x93C20420,    // extr x0, x1, x2, #1
            0x9B020C20,    // madd x0, x1, x2, x3
            0x9A820020,    // csel x0, x1, x2, eq
            0x9A020020,    // adc x0, x1, x2
            0x9AC20820,    // udiv x0, x1, x2
            0x1E622820,    // fadd d0, d1, d2
            0x4C407000,    // ld1 {v0.16b}, [x0]
            0xD5033FDF,    // isb
            0xD4000001,    // svc #0
            0xD53B4200,    // mrs x0, nzcv
        ] {
            assert_eq!(run(&mut c, w), A64Outcome::Unmodelled, "{w:#010x}");
            assert_eq!(class_of(w), None);
        }
        assert_eq!(c, before);
    }

    #[test]
    fn random_words_never_panic_and_class_of_is_consistent() {
        let mut s: u64 = 0x9e37_79b9_7f4a_7c15;
        let mut c = mk();
        for i in 0..31 {
            c.x[i] = 0x2000 + 8 * i as u64;
        }
        c.sp = 0x2100;
        map(&mut c, 0x1fc0, &[0x5a; 0x180]);
        for _ in 0..100_000 {
            s = s.wrapping_mul(6364136223846793005).wrapping_add(1442695040888963407);
            let w = (s >> 32) as u32;
            let mut t = c.clone();
            let out = step(&mut t, PC, w);
            match out {
                A64Outcome::Undefined | A64Outcome::Unmodelled => {
                    assert_eq!(class_of(w), None);
                    assert_eq!(t, c);
                }
                A64Outcome::Unpredictable(_) | A64Outcome::MemFault(_) => {
                    assert!(class_of(w).is_some());
                    assert_eq!(t, c);
                }
                A64Outcome::Next { .. } => assert!(class_of(w).is_some()),
            }
        }
    }
}
