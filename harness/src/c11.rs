//! C11 — Graph algorithms equal their textbook definitions on every graph.
//!
//! Oracle: graphref (brute force from the definitions). Exhaustive over all
//! digraphs with <= 3 (quick) / <= 4 (thorough) vertices and every root, plus
//! random graphs with sparse ids, and random edit histories against a set model.

use crate::fw::*;
use crate::graphref::{Set, G};
use falcon::graph::{Edge as _, Graph, NullEdge, NullVertex, Vertex as _};
use serde_json::{json, Value};
use std::collections::{BTreeMap, BTreeSet};

type FG = Graph<NullVertex, NullEdge>;

pub struct C11 {
    exh4: bool,
}

impl C11 {
    pub fn new(tier: Tier) -> C11 {
        C11 { exh4: tier == Tier::Thorough }
    }
}

fn build(g: &G) -> FG {
    let mut f = FG::new();
    for v in &g.v {
        f.insert_vertex(NullVertex::new(*v)).unwrap();
    }
    for (h, t) in &g.e {
        f.insert_edge(NullEdge::new(*h, *t)).unwrap();
    }
    f
}

fn gjson(g: &G, root: usize) -> Value {
    json!({"vertices": g.v.iter().collect::<Vec<_>>(), "edges": g.e.iter().map(|e| vec![e.0, e.1]).collect::<Vec<_>>(), "root": root})
}

fn to_set<'a, I: IntoIterator<Item = &'a usize>>(i: I) -> Set {
    i.into_iter().cloned().collect()
}

fn edges_of<V: falcon::graph::Vertex, E: falcon::graph::Edge>(g: &Graph<V, E>) -> BTreeSet<(usize, usize)> {
    g.edges().iter().map(|e| (e.head(), e.tail())).collect()
}
fn verts_of<V: falcon::graph::Vertex, E: falcon::graph::Edge>(g: &Graph<V, E>) -> Set {
    g.vertices().iter().map(|v| v.index()).collect()
}

impl C11 {
    /// compare every algorithm on (g, root)
    fn check_graph(&self, ctx: &mut Ctx, g: &G, root: usize, tag: &str) {
        let f = build(g);
        let reach = g.reach(root);
        let unreach = g.v.len() != reach.len();
        let utag = if unreach { "with_unreachable" } else { "all_reachable" };
        let gj = || gjson(g, root);
        ctx.trace(|| format!("graph {}", gj()));
        macro_rules! call {
            ($name:expr, $e:expr) => {{
                ctx.eval();
                match guard(|| $e) {
                    Err(p) => {
                        ctx.panic_violation(&format!("{}:{}", $name, utag), &p, gj());
                        None
                    }
                    Ok(Err(e)) => {
                        ctx.violation(&format!("{}:error:{}:{}", $name, utag, tag), json!({"graph": gj(), "error": format!("{:?}", e)}));
                        None
                    }
                    Ok(Ok(v)) => Some(v),
                }
            }};
        }
        macro_rules! differ {
            ($name:expr, $exp:expr, $got:expr) => {{
                ctx.violation(
                    &format!("{}:differs:{}:{}", $name, utag, tag),
                    json!({"graph": gj(), "expected": format!("{:?}", $exp), "actual": format!("{:?}", $got)}),
                );
            }};
        }

        // reachability
        if let Some(r) = call!("reachable_vertices", f.reachable_vertices(root)) {
            let got = to_set(r.iter());
            if got != reach {
                differ!("reachable_vertices", reach, got);
            }
        }
        if let Some(r) = call!("unreachable_vertices", f.unreachable_vertices(root)) {
            let got = to_set(r.iter());
            let exp: Set = g.v.difference(&reach).cloned().collect();
            if got != exp {
                differ!("unreachable_vertices", exp, got);
            }
        }
        // dominators
        let dom = g.dominators(root);
        if let Some(r) = call!("compute_dominators", f.compute_dominators(root)) {
            let got: BTreeMap<usize, Set> = r.iter().map(|(k, v)| (*k, to_set(v.iter()))).collect();
            if got != dom {
                differ!("compute_dominators", dom, got);
            }
        }
        let idom = g.idoms(root);
        if let Some(r) = call!("compute_immediate_dominators", f.compute_immediate_dominators(root)) {
            let got: BTreeMap<usize, usize> = r.iter().map(|(k, v)| (*k, *v)).collect();
            if got != idom {
                differ!("compute_immediate_dominators", idom, got);
            }
        }
        if let Some(t) = call!("compute_dominator_tree", f.compute_dominator_tree(root)) {
            let got = edges_of(&t);
            let exp: BTreeSet<(usize, usize)> = idom.iter().map(|(v, d)| (*d, *v)).collect();
            if got != exp {
                differ!("compute_dominator_tree", exp, got);
            }
            // vertices of the tree: at least the reachable ones; unreachable ones must not be attached
            let tv = verts_of(&t);
            if !reach.is_subset(&tv) {
                differ!("compute_dominator_tree.vertices", reach, tv);
            }
        }
        // dominance frontiers (judged on reachable vertices; unreachable keys are not judged)
        let df = g.dominance_frontiers(root);
        if let Some(r) = call!("compute_dominance_frontiers", f.compute_dominance_frontiers(root)) {
            let got: BTreeMap<usize, Set> = r.iter().filter(|(k, _)| reach.contains(k)).map(|(k, v)| (*k, to_set(v.iter()))).collect();
            if got != df {
                differ!("compute_dominance_frontiers", df, got);
            }
            if r.iter().any(|(k, v)| !reach.contains(k) && !v.is_empty()) {
                ctx.count("df_nonempty_for_unreachable_vertex(not judged)");
            }
        }
        // loops
        let loops = g.loops(root);
        if let Some(r) = call!("compute_loops", f.compute_loops(root)) {
            let mut got: BTreeMap<usize, Set> = BTreeMap::new();
            let mut dup = false;
            for l in &r {
                if got.insert(l.header(), l.nodes().clone()).is_some() {
                    dup = true;
                }
            }
            if dup || got != loops {
                differ!("compute_loops", loops, got);
            }
        }
        if let Some(t) = call!("compute_loop_tree", f.compute_loop_tree(root)) {
            let got_e = edges_of(&t);
            let got_v = verts_of(&t);
            let exp_v: Set = loops.keys().cloned().collect();
            let mut exp_e = BTreeSet::new();
            for (h1, n1) in &loops {
                for h2 in loops.keys() {
                    if h1 != h2 && n1.contains(h2) {
                        exp_e.insert((*h1, *h2));
                    }
                }
            }
            if got_v != exp_v || got_e != exp_e {
                differ!("compute_loop_tree", (exp_v, exp_e), (got_v, got_e));
            }
        }
        // reducibility, acyclicity
        if let Some(r) = call!("is_reducible", f.is_reducible(root)) {
            let exp = g.is_reducible(root);
            if r != exp {
                differ!("is_reducible", exp, r);
            }
        }
        {
            ctx.eval();
            match guard(|| f.is_acyclic(root)) {
                Err(p) => ctx.panic_violation(&format!("is_acyclic:{}", utag), &p, gj()),
                Ok(r) => {
                    let exp = g.is_acyclic_from(root);
                    if r != exp {
                        differ!("is_acyclic", exp, r);
                    }
                }
            }
        }
        // orders
        if let Some(o) = call!("compute_pre_order", f.compute_pre_order(root)) {
            if let Err(why) = g.valid_preorder(root, &o) {
                ctx.violation(&format!("compute_pre_order:invalid:{}:{}", utag, tag), json!({"graph": gj(), "order": o, "why": why}));
            }
        }
        if let Some(o) = call!("compute_post_order", f.compute_post_order(root)) {
            if let Err(why) = g.valid_postorder(root, &o) {
                ctx.violation(&format!("compute_post_order:invalid:{}:{}", utag, tag), json!({"graph": gj(), "order": o, "why": why}));
            }
        }
        // dfs tree
        if let Some(t) = call!("compute_dfs_tree", f.compute_dfs_tree(root)) {
            let tv = verts_of(&t);
            let te = edges_of(&t);
            let mut ok = tv == reach && te.iter().all(|e| g.e.contains(e)) && te.len() + 1 == tv.len();
            if ok {
                let tg = G { v: tv.clone(), e: te.clone() };
                ok = tg.reach(root) == reach;
            }
            if !ok {
                differ!("compute_dfs_tree", "spanning tree of the reachable set using graph edges", (tv, te));
            }
        }
        // acyclic version
        if let Some(t) = call!("compute_acyclic", f.compute_acyclic(root)) {
            let te = edges_of(&t);
            let tg = G { v: verts_of(&t), e: te.clone() };
            let why = if !te.iter().all(|e| g.e.contains(e)) {
                Some("has an edge that is not in the graph")
            } else if tg.has_cycle_within(&tg.v, &BTreeSet::new()) {
                Some("result has a cycle")
            } else if tg.reach(root) != reach {
                Some("does not preserve reachability from the root")
            } else if g.is_acyclic_from(root) && !g.e.iter().filter(|e| reach.contains(&e.0)).all(|e| te.contains(e)) {
                Some("drops an edge of an already acyclic reachable part")
            } else {
                None
            };
            if let Some(w) = why {
                ctx.violation(&format!("compute_acyclic:invalid:{}:{}", utag, tag), json!({"graph": gj(), "why": w, "result_edges": format!("{:?}", te)}));
            }
        }
        // class: structural fingerprint
        let nback = g.back_edges(root).len();
        ctx.class(&format!(
            "n{}/e{}/{}/{}/{}",
            g.v.len().min(9),
            (g.e.len() / 3).min(9),
            utag,
            if g.is_reducible(root) { "red" } else { "irred" },
            if nback == 0 { "noback" } else if g.e.contains(&(root, root)) || g.preds(root).iter().any(|p| reach.contains(p)) { "root_in_loop" } else { "loops" }
        ));
    }

    /// whole-graph functions (no root)
    fn check_rootless(&self, ctx: &mut Ctx, g: &G, tag: &str) {
        let f = build(g);
        let gj = || gjson(g, 0);
        // transitive predecessors
        ctx.eval();
        match guard(|| f.compute_predecessors()) {
            Err(p) => ctx.panic_violation("compute_predecessors", &p, gj()),
            Ok(Err(e)) => ctx.violation("compute_predecessors:error", json!({"graph": gj(), "error": format!("{:?}", e)})),
            Ok(Ok(r)) => {
                let got: BTreeMap<usize, Set> = r.iter().map(|(k, v)| (*k, to_set(v.iter()))).collect();
                let exp = g.transitive_predecessors();
                if got != exp {
                    ctx.violation(&format!("compute_predecessors:differs:{}", tag), json!({"graph": gj(), "expected": format!("{:?}", exp), "actual": format!("{:?}", got)}));
                }
            }
        }
        // topological ordering
        ctx.eval();
        let cyclic = g.has_cycle_within(&g.v, &BTreeSet::new());
        match guard(|| f.compute_topological_ordering()) {
            Err(p) => ctx.panic_violation("compute_topological_ordering", &p, gj()),
            Ok(Err(_)) => {
                if !cyclic {
                    ctx.violation(&format!("compute_topological_ordering:error_on_acyclic:{}", tag), gj());
                }
            }
            Ok(Ok(o)) => {
                if cyclic {
                    ctx.violation(&format!("compute_topological_ordering:order_for_cyclic:{}", tag), json!({"graph": gj(), "order": o}));
                } else {
                    let pos: BTreeMap<usize, usize> = o.iter().enumerate().map(|(i, v)| (*v, i)).collect();
                    let ok = pos.len() == o.len() && to_set(o.iter()) == g.v && g.e.iter().all(|(h, t)| pos[h] < pos[t]);
                    if !ok {
                        ctx.violation(&format!("compute_topological_ordering:invalid:{}", tag), json!({"graph": gj(), "order": o}));
                    }
                }
            }
        }
        // view consistency
        self.check_views(ctx, &f, g, &gj(), tag);
    }

    fn check_views(&self, ctx: &mut Ctx, f: &FG, g: &G, gj: &Value, tag: &str) -> bool {
        ctx.eval();
        let r = guard(|| {
            let mut problems: Vec<String> = Vec::new();
            if verts_of(f) != g.v {
                problems.push(format!("vertices() = {:?}", verts_of(f)));
            }
            if f.num_vertices() != g.v.len() {
                problems.push(format!("num_vertices() = {}", f.num_vertices()));
            }
            if edges_of(f) != g.e {
                problems.push(format!("edges() = {:?}", edges_of(f)));
            }
            for v in &g.v {
                let s: Set = f.successor_indices(*v).map(|x| x.into_iter().collect()).unwrap_or_default();
                if s != g.succs(*v).into_iter().collect::<Set>() {
                    problems.push(format!("successor_indices({}) = {:?}", v, s));
                }
                let p: Set = f.predecessor_indices(*v).map(|x| x.into_iter().collect()).unwrap_or_default();
                if p != g.preds(*v).into_iter().collect::<Set>() {
                    problems.push(format!("predecessor_indices({}) = {:?}", v, p));
                }
                let eo: BTreeSet<(usize, usize)> = f.edges_out(*v).map(|x| x.iter().map(|e| (e.head(), e.tail())).collect()).unwrap_or_default();
                if eo != g.succs(*v).into_iter().map(|s| (*v, s)).collect() {
                    problems.push(format!("edges_out({}) = {:?}", v, eo));
                }
                let ei: BTreeSet<(usize, usize)> = f.edges_in(*v).map(|x| x.iter().map(|e| (e.head(), e.tail())).collect()).unwrap_or_default();
                if ei != g.preds(*v).into_iter().map(|p| (p, *v)).collect() {
                    problems.push(format!("edges_in({}) = {:?}", v, ei));
                }
                let sv: Set = f.successors(*v).map(|x| x.iter().map(|n| n.index()).collect()).unwrap_or_default();
                if sv != g.succs(*v).into_iter().collect::<Set>() {
                    problems.push(format!("successors({}) = {:?}", v, sv));
                }
                if !f.has_vertex(*v) {
                    problems.push(format!("has_vertex({}) false", v));
                }
            }
            for (h, t) in &g.e {
                if !f.has_edge(*h, *t) || f.edge(*h, *t).is_err() {
                    problems.push(format!("has_edge/edge({},{})", h, t));
                }
            }
            let wp: Set = f.vertices_without_predecessors().iter().map(|v| v.index()).collect();
            if wp != g.v.iter().cloned().filter(|v| g.preds(*v).is_empty()).collect::<Set>() {
                problems.push(format!("vertices_without_predecessors = {:?}", wp));
            }
            let ws: Set = f.vertices_without_successors().iter().map(|v| v.index()).collect();
            if ws != g.v.iter().cloned().filter(|v| g.succs(*v).is_empty()).collect::<Set>() {
                problems.push(format!("vertices_without_successors = {:?}", ws));
            }
            problems
        });
        match r {
            Err(p) => {
                ctx.panic_violation("views", &p, gj.clone());
                false
            }
            Ok(problems) => {
                if !problems.is_empty() {
                    ctx.violation(&format!("views:inconsistent:{}", tag), json!({"graph": gj, "problems": problems}));
                    false
                } else {
                    true
                }
            }
        }
    }

    fn edit_history(&self, ctx: &mut Ctx, rng: &mut Rng) {
        let ids = [0usize, 1, 2, 5, 9, 40, 1000];
        let mut g = G::new();
        let mut f = FG::new();
        let n = 20 + rng.usize(60);
        let mut hist: Vec<String> = Vec::new();
        for _ in 0..n {
            let a = *rng.pick(&ids);
            let b = *rng.pick(&ids);
            let (desc, ok_expected, res): (String, bool, Result<Result<(), falcon::Error>, PanicInfo>) = match rng.below(10) {
                0..=2 => (format!("insert_vertex({})", a), !g.v.contains(&a), guard(|| f.insert_vertex(NullVertex::new(a)))),
                3..=6 => (
                    format!("insert_edge({},{})", a, b),
                    g.v.contains(&a) && g.v.contains(&b) && !g.e.contains(&(a, b)),
                    guard(|| f.insert_edge(NullEdge::new(a, b))),
                ),
                7 | 8 => (format!("remove_edge({},{})", a, b), g.e.contains(&(a, b)), guard(|| f.remove_edge(a, b))),
                _ => (format!("remove_vertex({})", a), g.v.contains(&a), guard(|| f.remove_vertex(a))),
            };
            hist.push(desc.clone());
            ctx.eval();
            match res {
                Err(p) => {
                    ctx.panic_violation("edit", &p, json!({"history": hist}));
                    return;
                }
                Ok(r) => {
                    if r.is_ok() != ok_expected {
                        ctx.violation(
                            &format!("edit:{}:{}", desc.split('(').next().unwrap(), if ok_expected { "spurious_error" } else { "accepted_invalid" }),
                            json!({"history": hist}),
                        );
                        return;
                    }
                    if ok_expected {
                        // apply to the model
                        if desc.starts_with("insert_vertex") {
                            g.v.insert(a);
                        } else if desc.starts_with("insert_edge") {
                            g.e.insert((a, b));
                        } else if desc.starts_with("remove_edge") {
                            g.e.remove(&(a, b));
                        } else {
                            g.v.remove(&a);
                            g.e.retain(|e| e.0 != a && e.1 != a);
                        }
                    }
                }
            }
            if !self.check_views(ctx, &f, &g, &json!({"history": hist}), "edit") {
                return;
            }
        }
        // remove_unreachable_vertices on the final graph
        if let Some(r) = g.v.iter().next().cloned() {
            ctx.eval();
            match guard(|| f.remove_unreachable_vertices(r)) {
                Err(p) => ctx.panic_violation("remove_unreachable_vertices", &p, json!({"history": hist})),
                Ok(Err(e)) => ctx.violation("remove_unreachable_vertices:error", json!({"history": hist, "error": format!("{:?}", e)})),
                Ok(Ok(())) => {
                    let keep = g.reach(r);
                    g.e.retain(|e| keep.contains(&e.0) && keep.contains(&e.1));
                    g.v = keep;
                    hist.push(format!("remove_unreachable_vertices({})", r));
                    self.check_views(ctx, &f, &g, &json!({"history": hist}), "edit");
                }
            }
        }
        ctx.class(&format!("edit/n{}", (n / 20).min(4)));
    }

    fn exhaustive_chunk(&self, ctx: &mut Ctx, n: usize, chunk: u64, per: u64) {
        let ids: Vec<usize> = match n {
            1 => vec![7],
            2 => vec![3, 0],
            3 => vec![4, 0, 9],
            _ => vec![2, 11, 0, 5],
        };
        let nbits = (n * n) as u32;
        let total = 1u64 << nbits;
        let start = chunk * per;
        let end = (start + per).min(total);
        for m in start..end {
            let mut g = G::new();
            for v in &ids {
                g.v.insert(*v);
            }
            for i in 0..n {
                for j in 0..n {
                    if m >> (i * n + j) & 1 == 1 {
                        g.e.insert((ids[i], ids[j]));
                    }
                }
            }
            for r in &ids {
                self.check_graph(ctx, &g, *r, "exh");
            }
            self.check_rootless(ctx, &g, "exh");
        }
        ctx.count_n(&format!("exhaustive_graphs_n{}", n), end - start);
    }

    fn random_graph(&self, rng: &mut Rng) -> (G, usize) {
        let n = 3 + rng.usize(12);
        let pool: Vec<usize> = if rng.bool() { (0..n).collect() } else { (0..n).map(|i| i * 7 + (i * i) % 5).collect() };
        let mut g = G::new();
        for v in &pool {
            g.v.insert(*v);
        }
        let density = rng.below(4);
        let m = match density {
            0 => n,
            1 => n + n / 2,
            2 => 2 * n,
            _ => n * n / 3,
        };
        // backbone so most things are reachable, sometimes deliberately not
        let connected = n - if rng.chance(1, 3) { rng.usize(3) } else { 0 };
        for i in 1..connected {
            let p = pool[rng.usize(i)];
            g.e.insert((p, pool[i]));
        }
        for _ in 0..m {
            let a = *rng.pick(&pool);
            let b = *rng.pick(&pool);
            g.e.insert((a, b));
        }
        // irreducible core sometimes
        if n >= 4 && rng.chance(1, 3) {
            let (a, b, c) = (pool[0], pool[1], pool[2]);
            g.e.insert((a, b));
            g.e.insert((a, c));
            g.e.insert((b, c));
            g.e.insert((c, b));
        }
        let root = if rng.chance(3, 4) { pool[0] } else { *rng.pick(&pool) };
        (g, root)
    }
}

impl Check for C11 {
    fn directed(&self) -> u64 {
        // n=1:1, n=2:1, n=3:1 chunk each (2, 16, 512 graphs), n=4: 128 chunks of 512 (thorough), + 1 regression case
        3 + if self.exh4 { 128 } else { 0 } + 1
    }
    fn run(&mut self, ctx: &mut Ctx, rng: &mut Rng, case: u64) {
        let d = self.directed();
        if case < 3 {
            self.exhaustive_chunk(ctx, case as usize + 1, 0, 512);
        } else if case < d - 1 {
            self.exhaustive_chunk(ctx, 4, case - 3, 512);
        } else if case == d - 1 {
            // regression: unreachable vertex next to a loop; root inside a loop; irreducible core
            let mk = |v: &[usize], e: &[(usize, usize)]| G { v: v.iter().cloned().collect(), e: e.iter().cloned().collect() };
            let graphs = vec![
                (mk(&[0, 1, 2], &[(0, 1)]), 0),
                (mk(&[0, 1, 2, 3], &[(0, 1), (1, 2), (2, 1), (3, 2), (3, 3)]), 0),
                (mk(&[1, 2, 3, 4, 5, 6], &[(1, 2), (2, 3), (2, 4), (2, 6), (3, 5), (4, 5), (5, 2)]), 1),
                (mk(&[1, 2, 3, 4, 5, 6], &[(1, 2), (2, 3), (2, 4), (2, 6), (3, 5), (4, 5), (5, 2)]), 5),
                (mk(&[0, 1, 2, 3], &[(0, 1), (0, 2), (1, 2), (2, 1), (2, 3)]), 0),
            ];
            for (g, r) in graphs {
                self.check_graph(ctx, &g, r, "directed");
                self.check_rootless(ctx, &g, "directed");
            }
        } else if rng.chance(1, 6) {
            self.edit_history(ctx, rng);
        } else {
            let (g, root) = self.random_graph(rng);
            self.check_graph(ctx, &g, root, "rnd");
            if rng.chance(1, 3) {
                self.check_rootless(ctx, &g, "rnd");
            }
            if ctx.want_sample() {
                ctx.sample(gjson(&g, root));
            }
        }
    }
}
