#!/bin/sh
# verify_seed.sh <ID> <LETTER>: confirm a seeded change independently in the scratch worktree /tmp/sw/<ID>:
#   patch applies to a clean checkout, the repository's tests pass with it, the demonstration exits 0 without
#   the change and non-zero with it. On success the change is copied to /verif/seeded/<ID>/<LETTER>/.
id=$1; v=$2
wt=/tmp/sw/$id; out=/tmp/sw/out/$id/$v
log=/tmp/sw/out/$id/$v/verify.log
cd "$wt" || exit 2
git checkout -q -- . ; git clean -fdq examples lib 2>/dev/null
[ -f "$out/patch.diff" ] && [ -f "$out/demo.rs" ] && [ -f "$out/meta.json" ] || { echo "$id/$v MISSING files"; exit 1; }
git apply --check "$out/patch.diff" || { echo "$id/$v patch does not apply"; exit 1; }
if git apply --stat "$out/patch.diff" | grep -q "examples/\|TASK.md"; then echo "$id/$v patch touches examples/TASK"; exit 1; fi
mkdir -p examples; cp "$out/demo.rs" examples/seed_demo.rs
export CARGO_NET_OFFLINE=true
# 1. demo on unchanged code
cargo run --offline -q -j 6 --example seed_demo > "$log.base" 2>&1; b=$?
# 2. with the change
git apply "$out/patch.diff"
cargo run --offline -q -j 6 --example seed_demo > "$log.patched" 2>&1; p=$?
rm -f examples/seed_demo.rs; rmdir examples 2>/dev/null
cargo test --offline -q -j 6 > "$log.tests" 2>&1; t=$?
passed=$(grep -E "^test result: ok" "$log.tests" | head -1)
git checkout -q -- . ; git clean -fdq examples 2>/dev/null
echo "$id/$v demo_base_exit=$b demo_patched_exit=$p tests_exit=$t [$passed]"
if [ $b -eq 0 ] && [ $p -ne 0 ] && [ $p -ne 101 -o 1 -eq 1 ] && [ $t -eq 0 ]; then
  d=/verif/seeded/$id/$v; mkdir -p "$d"
  cp "$out/patch.diff" "$out/demo.rs" "$out/meta.json" "$d/"; [ -f "$out/demo.md" ] && cp "$out/demo.md" "$d/"
  python3 - "$d" "$b" "$p" "$passed" <<'EOF'
import json,sys
d,b,p,passed=sys.argv[1:5]
m=json.load(open(d+"/meta.json"))
m["confirmed"]={"where":"scratch worktree under /tmp/sw (removed afterwards)","demo_exit_unchanged":int(b),"demo_exit_changed":int(p),"repo_tests_with_change":passed.strip(),"ran":["git apply patch.diff","cargo test --offline (all pass)","cargo run --example seed_demo without and with the change"]}
json.dump(m,open(d+"/meta.json","w"),indent=1)
EOF
  echo "$id/$v KEPT"
else
  echo "$id/$v REJECTED"; tail -5 "$log.patched"
fi
