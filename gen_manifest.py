#!/usr/bin/env python3
"""Regenerate MANIFEST.json from fvprops.PROPS (claimed checks) and the fixed property list."""
import json, os
ROOT = os.path.dirname(os.path.abspath(__file__))
import sys
sys.path.insert(0, ROOT)
from fvprops import PROPS, NOT_CLAIMED

ids = [json.loads(l)["id"] for l in open(os.path.join(ROOT, "properties.jsonl"))]
checks = []
for pid in ids:
    if pid not in PROPS:
        continue
    c = PROPS[pid]
    checks.append({
        "property_id": pid,
        "quick_cmd": "./fv check %s --tier quick" % pid,
        "thorough_cmd": "./fv check %s --tier thorough" % pid,
        "evidence_file": "/verif/evidence/%s.json" % pid,
        "replay_cmd_template": "./fv replay {path}",
        "engine": "fvh",
        "level_claimed": {"category": "exploration", "text": c["level_text"], "design_ref": "DESIGN.md section 3, %s" % pid},
        "level_note": c["level_note"],
        "technique": c["technique"],
    })
na = [{"property_id": pid, "reason": NOT_CLAIMED.get(pid, "check not built yet in this session (runtime monitor planned in DESIGN.md section 3)")}
      for pid in ids if pid not in PROPS]
m = {
    "version": 1,
    "setup_cmd": "./setup.sh",
    "hooks": {
        "guard": "falcon_verif",
        "enable": "none required: every property is observed through falcon's public API; the harness crate depends on /repo by path and rebuilds it on every check",
        "baseline_off_cmd": "cd /repo && cargo test --workspace --no-fail-fast --offline",
        "source_commits": [],
        "add_only": True,
    },
    "engines": [{"name": "fvh", "path": "/verif/harness", "serves_properties": [c["property_id"] for c in checks],
                 "kind_free_text": "Rust worker binary: seeded workload generators + reference oracles/monitors observing real falcon executions; orchestrated by /verif/fv (16 worker processes)"}],
    "checks": checks,
    "not_applicable": na,
    "notes": "Runtime monitoring family. Exit 0 = held on everything explored (KNOWN-FINDING lines allowed), 1 = VIOLATION, 2 = INCONCLUSIVE (build failure, dead worker, too few observations). Known findings: /verif/known_findings.json.",
}
json.dump(m, open(os.path.join(ROOT, "MANIFEST.json"), "w"), indent=1)
print("claimed:", [c["property_id"] for c in checks], "not claimed:", len(na))
