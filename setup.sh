#!/bin/sh
# MANIFEST.setup_cmd: build the worker binary offline from files on disk only.
set -e
cd "$(dirname "$0")"
export CARGO_NET_OFFLINE=true
./fv build --release
